#!/bin/bash
# Determinism self-test (DESIGN.md 3.5): every property's run indices are executed at worker counts 1, 5 and 16
# (and twice at 16); the per-index event hashes must be identical. Also validates a dry-run evidence file.
set -u
V=${1:-/verif}; B=$V/build; T=$B/selftest; rm -rf $T; mkdir -p $T/ev $T/rp
N=${SELFTEST_RUNS:-2000}
fail=0
for p in C03 C05 C07 C11 C12 C13 C14 C15 C17 C20; do
  for w in 1 5 16 16b; do
    $B/urisim check $p quick --runs $N --workers ${w%b} --dump-hashes $T/$p.$w.h --evidence $T/ev --replays $T/rp --known $V/known_findings.json > $T/$p.$w.log 2>&1
    rc=$?
    if [ $rc -ge 2 ]; then echo "SELFTEST: $p workers=$w harness error (exit $rc)"; tail -3 $T/$p.$w.log; fail=1; fi
  done
  for w in 5 16 16b; do
    if ! cmp -s $T/$p.1.h $T/$p.$w.h; then echo "SELFTEST: $p event hashes differ between 1 and $w workers"; diff $T/$p.1.h $T/$p.$w.h | head -5; fail=1; fi
  done
  lines=$(wc -l < $T/$p.1.h)
  echo "selftest $p: $lines run indices x 4 executions, hashes identical: $([ $fail = 0 ] && echo yes || echo NO)"
  $(command -v python3-vt || echo python3) - "$T/ev/$p.json" <<'PY' || fail=1
import json,sys
try:
    import jsonschema
    schema=json.load(open('/root/.vp/EVIDENCE.schema.json'))
    jsonschema.validate(json.load(open(sys.argv[1])),schema)
except ImportError:
    json.load(open(sys.argv[1]))
except Exception as e:
    print("SELFTEST: evidence file invalid:",sys.argv[1],str(e)[:300]); sys.exit(1)
PY
done
rm -rf $T
[ $fail = 0 ] && echo "selftest ok" || { echo "selftest FAILED"; exit 2; }
