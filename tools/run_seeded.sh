#!/bin/bash
# Re-run every kept seeded change against the check of the property it breaks: apply to /repo's working tree, ./check quick, revert.
# Prints one line per change; exit 0 iff every change is caught (check exit 1) and the clean tree passes afterwards.
V="$(cd "$(dirname "$0")/.." && pwd)"; REPO="${VERIF_REPO:-/repo}"; export VERIF_REPO="$REPO"; cd $V; miss=0; mkdir -p $V/build; T=$(mktemp -d $V/build/mut.XXXXXX)
for d in seeded/*/; do
  id=$(basename $d); p=${id%%-*}
  cw=$(sed -n 's/.*"check_with": *"\(C[0-9]*\)".*/\1/p' $d/meta.json 2>/dev/null | head -1); [ -n "$cw" ] && p=$cw   # reported by a sibling check (see meta.json "note")
  [ -f $d/patch.diff ] || continue
  if grep -q '"expected": *"not-reported"' $d/meta.json 2>/dev/null; then echo "$id: recorded gap (outside the simulated range, see meta.json) - not run"; continue; fi
  git -C $REPO apply $V/${d}patch.diff || { echo "$id: patch does not apply"; miss=1; continue; }
  out=$(./check $p quick --evidence $T/ev --replays $T/rp 2>&1); rc=$?
  git -C $REPO checkout -- .
  cls=$(echo "$out" | grep -m1 "  class:" | sed 's/ *(run_index.*//')
  echo "$id: check $p exit=$rc $cls"
  [ $rc = 1 ] || miss=1
done
rm -rf $T; exit $miss
