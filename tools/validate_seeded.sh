#!/bin/bash
# validate_seeded.sh <PROP> <N> : confirm a sub-agent's mutant in its scratch worktree (tests pass, demo fails with / passes without),
# then run our checks against it on /repo (apply, check, revert) and store it under /verif/seeded/<PROP>-<N>/.
set -u
P=$1; N=$2; shift 2; CHECKS="${*:-$P}"
WTROOT=${WTROOT:-/tmp/wt}; OFF=${OFF:-0}; ID=$P-$((N+OFF))
W=$WTROOT/$P; M=$W/mutants/$N; OUT=/verif/seeded/$ID
[ -f $M/patch.diff ] || { echo "no patch in $M"; exit 3; }
cd $W && git checkout -q -- . 
demo=$(ls $M/demo.c $M/demo.cpp 2>/dev/null | head -1)
cc=gcc; case $demo in *.cpp) cc=g++;; esac
builddemo() { $cc -g -I include $demo -L _build -luriparser -Wl,-rpath,$W/_build -lpthread -o /tmp/demo_$P$N 2>&1 | tail -3; }
git apply --check $M/patch.diff || { echo "PATCH DOES NOT APPLY"; exit 3; }
[ -d _build ] || cmake -G Ninja -B _build -DURIPARSER_BUILD_DOCS=OFF -DCMAKE_BUILD_TYPE=RelWithDebInfo -DGTest_DIR=/root/miniconda/lib/cmake/GTest >/dev/null 2>&1
git apply $M/patch.diff
cmake --build _build 2>&1 | grep -E "warning:|error" | grep -v Mainpage | head -5
tests=$(./_build/testrunner 2>&1 | tail -1)
builddemo; ( cd $W && timeout 120 /tmp/demo_$P$N >/tmp/demo_$P$N.with 2>&1 ); with=$?
git checkout -q -- .
cmake --build _build 2>&1 | grep -E "error" | head -3
builddemo; ( cd $W && timeout 120 /tmp/demo_$P$N >/tmp/demo_$P$N.without 2>&1 ); without=$?
echo "[$ID] tests: $tests | demo exit with patch=$with, without=$without"
mkdir -p $OUT && cp $M/patch.diff $OUT/ && cp $demo $OUT/ && cp $M/README.md $OUT/AGENT_README.md 2>/dev/null
res=""
for c in $CHECKS; do
  o=$(cd /verif && tools/try_mutant.py --patch $ID $M/patch.diff $c 2>&1)
  echo "$o" | head -8
  res="$res$(echo "$o" | head -1 | sed 's/"/'"'"'/g'); "
done
python3 - "$OUT" "$P" "$((N+OFF))" "$tests" "$with" "$without" "$res" <<'PY'
import json,sys
out,p,n,tests,w,wo,res=sys.argv[1:]
json.dump({"property":p,"mutant":int(n),"confirmed":{"existing_tests":tests.strip(),"demo_exit_with_patch":int(w),"demo_exit_without_patch":int(wo)},
 "needs_to_manifest":"see AGENT_README.md","what_we_ran":"tools/validate_seeded.sh (apply in scratch worktree, build, testrunner, demo with/without; then git -C /repo apply, ./check quick, git checkout)",
 "check_results":res},open(out+"/meta.json","w"),indent=1)
PY
rm -f /tmp/demo_$P$N*
