#!/bin/bash
# validate_round4.sh <PROP>: validate every mutant a round-4 sub-agent left in /tmp/wt4/<PROP>/mutants/<n> (tests pass, demo fails
# with / passes without), run the property's quick check against it and store it as the next free seeded/<PROP>-<k>.
P=$1; shift
for M in /tmp/wt4/$P/mutants/*/; do
  n=$(basename $M); [ -f $M/patch.diff ] || continue
  k=1; while [ -d /verif/seeded/$P-$k ]; do k=$((k+1)); done
  WTROOT=/tmp/wt4 OFF=$((k-n)) /verif/tools/validate_seeded.sh $P $n "$@"
done
