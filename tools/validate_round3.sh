#!/bin/bash
# validate_round3.sh <agentdir e.g. A1> <n>: like validate_seeded.sh for the cross-property round: the property comes from the
# first line of the agent's README ("PROPERTY: Cnn"); the seeded id is the next free number for that property.
A=$1; N=$2; W=${R3ROOT:-/tmp/wt3}/$A; M=$W/mutants/$N
P=$(head -1 $M/README.md | sed -n 's/^PROPERTY: *\(C[0-9]*\).*/\1/p')
[ -n "$P" ] || { echo "no PROPERTY line in $M/README.md"; exit 3; }
k=1; while [ -d /verif/seeded/$P-$k ]; do k=$((k+1)); done
mkdir -p ${R3ROOT:-/tmp/wt3}/$P; rm -rf ${R3ROOT:-/tmp/wt3}/$P/link; ln -sfn $W ${R3ROOT:-/tmp/wt3}/$P/link
# reuse validate_seeded.sh through a shim directory layout: WTROOT/<P>/mutants/<N>
rm -rf ${R3ROOT:-/tmp/wt3}s; mkdir -p ${R3ROOT:-/tmp/wt3}s; ln -sfn $W ${R3ROOT:-/tmp/wt3}s/$P
WTROOT=${R3ROOT:-/tmp/wt3}s OFF=$((k-N)) /verif/tools/validate_seeded.sh $P $N "${@:3}"
