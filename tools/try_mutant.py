#!/usr/bin/env python3
"""try_mutant.py NAME FILE 'old' 'new' PROP [PROP...]  -- apply a textual mutation to /repo (working tree only),
run ./check PROP quick for each, print verdicts, and always revert with git checkout.
Also: try_mutant.py --patch NAME PATCHFILE PROP..."""
import subprocess,sys,os,re
def run(cmd,**kw): return subprocess.run(cmd,shell=True,capture_output=True,text=True,**kw)
args=sys.argv[1:]
if args[0]=='--patch':
    name,patch,props=args[1],args[2],args[3:]
    r=run(f"git -C /repo apply {patch}")
    if r.returncode: print("PATCH DOES NOT APPLY",r.stderr); sys.exit(3)
else:
    name,f,old,new,props=args[0],args[1],args[2],args[3],args[4:]
    p='/repo/'+f; s=open(p).read()
    if s.count(old)<1: print("OLD TEXT NOT FOUND"); sys.exit(3)
    open(p,'w').write(s.replace(old,new,1))
try:
    extra=os.environ.get('CHECK_ARGS','')+' --evidence /tmp/urisim_mut_ev --replays /tmp/urisim_mut_rp'   # never clobber /verif/evidence with runs on a changed tree
    for pr in props:
        r=run(f"cd /verif && ./check {pr} quick {extra}")
        lines=[l for l in r.stdout.splitlines() if l.startswith('VIOLATION') or l.startswith('  class:') or l.startswith('HARNESS') or 'NOTE out-of-scope' in l]
        tail=r.stdout.strip().splitlines()[-1] if r.stdout.strip() else r.stderr[-300:]
        print(f"[{name}] {pr}: exit={r.returncode} :: {tail}")
        for l in lines[:8]: print("     ",l[:260])
finally:
    run("git -C /repo checkout -- .")
