#!/bin/bash
# Run every check against every behaviour-preserving change under benign/: apply to /repo's working tree, ./check <all> quick, revert.
# Every check must exit 0 (no VIOLATION line): a report here is a false alarm of the machinery. Usage: run_benign.sh [dir ...]
V="$(cd "$(dirname "$0")/.." && pwd)"; REPO="${VERIF_REPO:-/repo}"; export VERIF_REPO="$REPO"; cd $V; bad=0; mkdir -p $V/build; T=$(mktemp -d $V/build/mut.XXXXXX)
PROPS="${PROPS:-C03 C05 C07 C11 C12 C13 C14 C15 C17 C20}"
dirs="$@"; [ -n "$dirs" ] || dirs=$(ls -d benign/*/)
for d in $dirs; do
  d=${d%/}; id=$(basename $d)
  [ -f $d/patch.diff ] || continue
  git -C $REPO apply $V/$d/patch.diff || { echo "$id: patch does not apply"; bad=1; continue; }
  line="$id:"; first=1
  for p in $PROPS; do
    if [ $first = 1 ]; then unset URISIM_SKIP_BUILD; first=0; else export URISIM_SKIP_BUILD=1; fi   # one build per change
    out=$(./check $p quick --evidence $T/ev --replays $T/rp 2>&1); rc=$?
    if [ $rc = 0 ]; then line="$line $p=ok"; else line="$line $p=EXIT$rc"; bad=1; echo "$out" | grep -E "VIOLATION|  class:|HARNESS" | head -4 | sed "s/^/    [$id $p] /"; fi
  done
  git -C $REPO checkout -- .; unset URISIM_SKIP_BUILD
  echo "$line"
done
rm -rf $T; exit $bad
