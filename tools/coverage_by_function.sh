#!/bin/bash
# coverage_by_function.sh <prop> [tier]: run a check with URISIM_DUMP_COV and list library functions with unhit edge guards.
# For the builder's own use (finding blind spots); not part of any registered check.
P=$1; T=${2:-quick}; F=/tmp/cov_$P.txt
cd /verif && URISIM_DUMP_COV=$F ./check $P $T >/dev/null 2>&1
awk '{print $3}' $F | llvm-symbolizer-14 --obj=/verif/build/urisim --functions=linkage --no-inlines --output-style=GNU 2>/dev/null | paste - - > /tmp/cov_$P.sym
paste $F /tmp/cov_$P.sym | awk '{hit[$4]+=$2; tot[$4]++; file[$4]=$5} END {for (f in tot) printf "%5d/%-5d %s %s\n", hit[f], tot[f], f, file[f]}' | sort -k3 | awk '{split($1,a,"/"); print}' > /tmp/cov_$P.byfunc
awk '{split($1,a,"/"); if (a[1]==0) z++; else if (a[1]<a[2]) p++; else f++} END {print "functions: fully covered", f, "partly", p, "never executed", z}' /tmp/cov_$P.byfunc
echo "never executed:"; awk '{split($1,a,"/"); if (a[1]==0) print "   ", $2, $3}' /tmp/cov_$P.byfunc | sed 's|/repo/src/||' | head -80
