#!/bin/bash
# uncovered_lines.sh [tier] [props...]: union of the edge coverage of the given checks (default: all); prints library source lines whose
# edge guard no check reached (file:line function), grouped per file. Builder's aid for finding generator blind spots.
T=${1:-quick}; shift; PROPS="${*:-C03 C05 C07 C11 C12 C13 C14 C15 C17 C20}"
cd /verif; rm -f /tmp/covu_*.txt
for P in $PROPS; do URISIM_DUMP_COV=/tmp/covu_$P.txt ./check $P $T --evidence /tmp/urisim_mut_ev --replays /tmp/urisim_mut_rp >/dev/null 2>&1; done
python3 - <<'PY'
import glob,subprocess,collections
hit={};pc={}
for f in glob.glob('/tmp/covu_*.txt'):
    for l in open(f):
        i,h,a=l.split(); hit[i]=hit.get(i,0)|int(h); pc[i]=a
un=[i for i in hit if not hit[i]]
print("guards:",len(hit),"hit:",len(hit)-len(un),"unhit:",len(un))
out=subprocess.run(['llvm-symbolizer-14','--obj=/verif/build/urisim','--functions=linkage','--no-inlines','--output-style=GNU']+[pc[i] for i in un],capture_output=True,text=True).stdout.split('\n')
by=collections.defaultdict(set)
for k in range(0,len(out)-1,2):
    fn=out[k]; loc=out[k+1].split('/')[-1]
    fl,ln=(loc.split(':')+['0'])[:2]
    by[fl].add((int(ln) if ln.isdigit() else 0,fn))
for fl in sorted(by):
    print("==",fl,len(by[fl]))
    print("   "+" ".join(f"{ln}:{fn}" for ln,fn in sorted(by[fl])))
PY
