#!/bin/bash
# validate_round5.sh <agentdir e.g. A1>: every mutant of a cross-property sub-agent (${WT:-/tmp/wt5}/<A>/mutants/<n>; property = first line of
# its README "PROPERTY: Cnn"): tests pass, demo fails with / passes without, then the property's quick check; stored as next free seeded/<P>-<k>.
A=$1; shift; W=${WT:-/tmp/wt5}/$A
for M in $W/mutants/*/; do
  n=$(basename $M); [ -f $M/patch.diff ] || continue
  P=$(head -1 $M/README.md | sed -n 's/^PROPERTY: *\(C[0-9]*\).*/\1/p')
  [ -n "$P" ] || { echo "no PROPERTY line in $M/README.md"; continue; }
  k=1; while [ -d /verif/seeded/$P-$k ]; do k=$((k+1)); done
  rm -rf /tmp/wtXs; mkdir -p /tmp/wtXs; ln -sfn $W /tmp/wtXs/$P
  WTROOT=/tmp/wtXs OFF=$((k-n)) /verif/tools/validate_seeded.sh $P $n "$@"
  python3 - /verif/seeded/$P-$k $A <<'PY'
import json,sys
p=sys.argv[1]+'/meta.json'; m=json.load(open(p)); m['origin']='independent sub-agent, round 5/6 (all ten claimed statements, angle '+sys.argv[2]+', list of 110 earlier changes to avoid)'; json.dump(m,open(p,'w'),indent=1)
PY
done
rm -rf /tmp/wtXs
