// C15: a manager completed from malloc/free alone behaves as a correct allocator (model-based, with backend faults).
#include "exec.h"
#include "engine.h"
#include <errno.h>

namespace sim {

namespace {
struct Handle { unsigned char* p = nullptr; size_t size = 0; bool live = false; unsigned char pat = 0; };

bool inside_live_backend_block(const void* p, size_t n, uint32_t* serial) {
    uintptr_t a = (uintptr_t)p;
    uintptr_t base = g_arena[A_HEAP].base;
    if (HugeBlock* hb = huge_find(p, true)) { if (hb->live && n <= hb->size && a - hb->addr <= hb->size - n) { if (serial) *serial = hb->serial; return true; } return false; }
    if (a < base || a - base >= g_arena[A_HEAP].size) return false;
    uint32_t off = (uint32_t)(a - base);
    for (auto& b : g.blocks) if (b.live && off >= b.off && n <= b.size && (size_t)(off - b.off) <= b.size - n) { if (serial) *serial = b.serial; return true; }
    return false;
}
}  // namespace

Verdict check_alloc(const Plan& plan, Stats& st) {
    Verdict none;
    st.runs++;
    run_reset(plan.junk, (ReusePolicy)plan.reuse, plan.redzone);
    // one or two completed managers over different backends, alive together: handles 0-3 belong to the first, 4-7 to the last
    const bool two = plan.mgrs.size() >= 2;
    // the second manager is completed when its first handle is used, i.e. in the middle of the first one's history
    std::vector<MgrInst> mgrs = two ? build_managers({MK_COMPLETED, MK_COMPLETED}, {0, 0}, true) : build_managers({MK_COMPLETED}, {0});
    if (two) complete_manager(mgrs[0]);
    if (g.abort_run) {
        for (auto& v : g.violations) if (kind_relevant("C15", v.kind)) {
            Verdict d; d.violated = true; d.kind = v.kind; d.op = -1; d.detail = v.detail + " (while completing the manager)"; d.op_kind = "-"; d.concrete = plan; d.ev_hash = g.ev_hash; st.trials++; return d;
        }
    }
    UriMemoryManager* mem = mgrs[0].table;
    int mid = mgrs[0].id;
    auto select_mgr = [&](int handle) {
        MgrInst& m = mgrs[(two && handle >= 4) ? 1 : 0];
        if (!m.table) { complete_manager(m); st.probe("second_manager_completed_mid_history"); }
        mem = m.table; mid = m.id;
    };
    Handle h[8];
    const size_t unsatisfiable = g_arena[A_HEAP].size >> 2;   // the simulated backend refuses anything above a quarter of its arena (rt.cpp heap_malloc)
    unsigned long long sig = 1469598103934665603ull;
    bool any_fault = false;

    auto has_relevant = [&]() { for (auto& v : g.violations) if (kind_relevant("C15", v.kind)) return true; return false; };
    // errno at entry is whatever earlier calls left there (often ENOMEM from a failed request); where the statement demands ENOMEM
    // afterwards the entry value is something else, so that the demand is not met by accident
    auto entry_errno = [&](int opi, bool must_set_enomem) { static const int kErr[] = {0, ENOMEM, EINVAL, ENOMEM, ERANGE, 0, ENOMEM, EDOM}; int e = kErr[((plan.junk >> 9) + (unsigned)opi * 3u) & 7]; return (must_set_enomem && e == ENOMEM) ? EDOM : e; };
    auto fail = [&](int opi, const std::string& what) { g.cur->op = opi; violate(V_ALLOC_MODEL, what, false); };
    const size_t kHead = 2500000;   // blocks above this (the sparse multi-GiB ones) are patterned at head and tail only
    auto fill = [&](Handle& x) {
        size_t head = x.size < kHead ? x.size : kHead;
        for (size_t i = 0; i < head; i++) x.p[i] = (unsigned char)(x.pat + (unsigned char)i);
        if (x.size > kHead) for (size_t i = x.size - 256; i < x.size; i++) x.p[i] = (unsigned char)(x.pat + (unsigned char)i);
    };
    auto check_content = [&](const Handle& x, const unsigned char* p, size_t n) {
        size_t head = n < kHead ? n : kHead;
        for (size_t i = 0; i < head; i++) if (p[i] != (unsigned char)(x.pat + (unsigned char)i)) return false;
        if (n > kHead && n == x.size) for (size_t i = n - 256; i < n; i++) if (p[i] != (unsigned char)(x.pat + (unsigned char)i)) return false;   // (the tail carries the pattern only at the size it was filled for)
        return true;
    };
    auto check_new_block = [&](int opi, Handle& x, const char* what) {
        uint32_t ser = 0;
        if (x.size && !inside_live_backend_block(x.p, x.size, &ser)) { fail(opi, std::string(what) + ": returned block of " + std::to_string(x.size) + " bytes does not lie wholly inside one live backend block (" + addr_name(x.p) + ")"); return false; }
        for (int k = 0; k < 8; k++) {
            Handle& y = h[k];
            if (&y == &x || !y.live || !y.size || !x.size) continue;
            if (x.p < y.p + y.size && y.p < x.p + x.size) { fail(opi, std::string(what) + ": returned block overlaps live block h" + std::to_string(k)); return false; }
        }
        return true;
    };
    // direct contracts of the public helpers
    {
        errno = 0;
        void* p = nullptr; volatile int rc = 0; bool ok;
        call_begin(-1, -1, -1, FaultPlan());
        LIBCALL_RUN({ p = uriEmulateCalloc(nullptr, 3, 5); }, ok);
        if (ok && (p != nullptr || errno != EINVAL)) fail(-1, "uriEmulateCalloc(NULL manager) must return NULL with errno EINVAL");
        errno = 0;
        LIBCALL_RUN({ p = uriEmulateReallocarray(nullptr, nullptr, 3, 5); }, ok);
        if (ok && (p != nullptr || errno != EINVAL)) fail(-1, "uriEmulateReallocarray(NULL manager) must return NULL with errno EINVAL");
        LIBCALL_RUN({ rc = uriCompleteMemoryManager(nullptr, mgrs[0].backend); }, ok);
        if (ok && rc != URI_ERROR_NULL) fail(-1, "uriCompleteMemoryManager(NULL, backend) must return URI_ERROR_NULL");
        call_end();
    }

    for (int i = 0; i < (int)plan.ops.size() && !g.abort_run; i++) {
        const Op& op = plan.ops[(size_t)i];
        FaultPlan fp; if (op.fail_k > 0) { fp.k = op.fail_k; fp.mode = op.fail_mode; fp.set = op.fail_set; }
        int ha = op.a >= 0 && op.a < 8 ? op.a : -1;
        Handle* x = ha >= 0 ? &h[ha] : nullptr;
        select_mgr(ha >= 0 ? ha : op.b);   // a call without a handle (realloc(NULL), free(NULL)) goes to the manager the spare index selects
        unsigned long long failed_before = g.hs.failed;
        unsigned char* res = nullptr; volatile int rc = 0; bool ok = true;
        event("op %d %s h%d n1=%llu n2=%llu", i, opkind_name(op.kind), ha, op.n1, op.n2);
        unsigned char b4[3] = {(unsigned char)op.kind, (unsigned char)(op.n1 > 255 ? 255 : op.n1), (unsigned char)(x && x->live)};
        sig = fnv1a(b4, 3, sig);
        st.ops++;
        switch (op.kind) {
        case OP_A_MALLOC: case OP_A_CALLOC: {
            if (!x) break;
            if (x->live) {   // release what the handle holds first
                call_begin(i, -1, mid, FaultPlan());
                unsigned char* old = x->p; LIBCALL_RUN({ mem->free(mem, old); }, ok); call_end();
                x->live = false;
                if (!ok) break;
            }
            bool cal = op.kind == OP_A_CALLOC;
            size_t n1 = (size_t)op.n1, n2 = (size_t)op.n2;
            size_t total = cal ? n1 * n2 : n1;
            bool ovf = cal ? (n1 && total / n1 != n2) : false;
            bool hdr_ovf = !ovf && total > (size_t)-1 - sizeof(size_t);
            errno = entry_errno(i, ovf);
            call_begin(i, -1, mid, fp);
            g.allow_huge = !cal && op.opt == 1;   // a multi-GiB block the backend really grants (sparse mapping): sizes above 2^32 in the header
            LIBCALL_RUN({ res = (unsigned char*)(cal ? mem->calloc(mem, n1, n2) : mem->malloc(mem, n1)); }, ok);
            g.allow_huge = false;
            int fired = g.cur->fired, reqs = g.cur->req_count; call_end();
            if (!ok) break;
            if (fired) { any_fault = true; st.fault("backend_fail", (unsigned long long)fired); }
            bool backend_failed = g.hs.failed != failed_before;
            (void)hdr_ovf;
            if (ovf) {
                if (res) fail(i, "calloc with an overflowing element-count product returned non-NULL");
                else if (errno != ENOMEM) fail(i, "calloc with an overflowing element-count product did not set errno to ENOMEM (errno=" + std::to_string(errno) + ")");
                // the true product is not representable, so whatever size reached the backend was a wrapped one: had the backend granted
                // it (a real one may), the caller would hold a block smaller than nmemb x size
                else if (reqs) fail(i, "calloc with an overflowing element-count product asked the backend for a (wrapped) size instead of refusing");
                st.probe("size_overflow_refused");
                break;
            }
            if (total > unsatisfiable && !(!cal && op.opt == 1 && total <= (6ull << 30))) {
                // no backend can deliver this much; whether the manager refuses it itself (header arithmetic, any header layout) or lets
                // the backend refuse it is its own business: NULL is the only acceptable answer
                if (res) fail(i, std::string(cal ? "calloc" : "malloc") + "(" + std::to_string(total) + ") returned non-NULL for a size no backend can deliver");
                st.probe("huge_request_refused");
                break;
            }
            if (backend_failed) { if (res) fail(i, "backend failure did not surface as NULL"); st.probe("backend_failure_surfaced"); break; }
            if (!res) { if (total && total + 4096 <= unsatisfiable) fail(i, std::string(cal ? "calloc" : "malloc") + "(" + std::to_string(total) + ") returned NULL although the backend did not fail"); break; }
            x->p = res; x->size = total; x->live = true; x->pat = (unsigned char)(17 * i + 3);
            if (!check_new_block(i, *x, cal ? "calloc" : "malloc")) break;
            if (cal) for (size_t k = 0; k < total; k++) if (res[k]) { fail(i, "calloc memory is not zeroed at offset " + std::to_string(k)); break; }
            fill(*x);
            break;
        }
        case OP_A_REALLOC: case OP_A_REALLOCARRAY: {
            bool arr = op.kind == OP_A_REALLOCARRAY;
            size_t n1 = (size_t)op.n1, n2 = (size_t)op.n2;
            if (x && x->live && huge_find(x->p, true) && x->size > kHead) {   // a multi-GiB block is only ever shrunk (growing it would copy gigabytes)
                if (arr) { n1 = n1 % 1000 + 1; n2 = n2 % 2000 + 1; } else n1 = n1 % 2000000 + 1;
                st.probe("sparse_block_shrunk");
            }
            size_t total = arr ? n1 * n2 : n1;
            bool ovf = arr ? (n1 && total / n1 != n2) : false;
            unsigned char* old = (x && x->live) ? x->p : nullptr;
            size_t old_size = (x && x->live) ? x->size : 0;
            bool hdr_ovf = !ovf && total > (size_t)-1 - sizeof(size_t);
            errno = entry_errno(i, ovf);
            call_begin(i, -1, mid, fp);
            LIBCALL_RUN({ res = (unsigned char*)(arr ? mem->reallocarray(mem, old, n1, n2) : mem->realloc(mem, old, n1)); }, ok);
            int fired = g.cur->fired, reqs = g.cur->req_count; call_end();
            if (!ok) break;
            if (fired) { any_fault = true; st.fault("backend_fail", (unsigned long long)fired); }
            bool backend_failed = g.hs.failed != failed_before;
            auto old_intact = [&]() {
                if (!old) return;
                uint32_t s;
                if (old_size && !inside_live_backend_block(old, old_size, &s)) fail(i, "after a failed reallocation the old block is no longer live");
                else if (!check_content(*x, old, old_size)) fail(i, "after a failed reallocation the old block's contents changed");
            };
            if (ovf) {
                if (res) fail(i, "reallocarray with an overflowing product returned non-NULL");
                else if (errno != ENOMEM) fail(i, "reallocarray with an overflowing product did not set errno to ENOMEM (errno=" + std::to_string(errno) + ")");
                else if (reqs) fail(i, "reallocarray with an overflowing product asked the backend for a (wrapped) size instead of refusing");
                old_intact(); st.probe("size_overflow_refused");
                break;
            }
            if (old && total == 0) {   // equals free
                if (res) fail(i, "realloc(p, 0) returned non-NULL");
                uint32_t s;
                if (old_size && inside_live_backend_block(old, old_size, &s)) fail(i, "realloc(p, 0) did not release the block");
                x->live = false; st.probe("realloc_to_zero_frees");
                break;
            }
            (void)hdr_ovf;
            // (a block that sits in a sparse multi-GiB grant keeps that capacity after it was shrunk: growing it again in place is legitimate)
            const bool in_sparse = old && huge_find(old, true) != nullptr;
            if (total > unsatisfiable && !(old && total <= old_size) && !(in_sparse && res == old)) {
                if (res) fail(i, "realloc(" + std::to_string(total) + ") returned non-NULL for a size no backend can deliver");
                old_intact(); st.probe("huge_request_refused");
                break;
            }
            if (backend_failed) {
                if (res) fail(i, "backend failure during reallocation did not surface as NULL");
                old_intact(); st.probe("realloc_backend_failure_old_intact");
                break;
            }
            if (!res) { if (total && total + 4096 <= unsatisfiable) { fail(i, "realloc(" + std::to_string(total) + ") returned NULL although the backend did not fail"); } else if (total) old_intact(); if (x && !old) x->live = false; break; }
            if (!x) {   // realloc(NULL, n) with no handle to keep it: release at once
                call_begin(i, -1, mid, FaultPlan()); LIBCALL_RUN({ mem->free(mem, res); }, ok); call_end();
                break;
            }
            {
                Handle nw; nw.p = res; nw.size = total; nw.live = true; nw.pat = x->pat;
                size_t keep = old ? (old_size < total ? old_size : total) : 0;
                if (old && !check_content(*x, res, keep)) { fail(i, "reallocation did not preserve the common prefix of " + std::to_string(keep) + " bytes"); }
                if (old && res != old) { uint32_t s; if (old_size && inside_live_backend_block(old, old_size, &s)) fail(i, "reallocation moved the block but did not release the old one"); st.probe("realloc_moved"); }
                if (old && res == old) st.probe("realloc_in_place");
                *x = nw;
                if (!check_new_block(i, *x, "realloc")) break;
                if (!old) x->pat = (unsigned char)(17 * i + 5);
                fill(*x);
            }
            break;
        }
        case OP_A_FREE: {
            unsigned char* old = (x && x->live) ? x->p : nullptr;
            errno = entry_errno(i, false);
            call_begin(i, -1, mid, FaultPlan());
            LIBCALL_RUN({ mem->free(mem, old); }, ok); call_end();
            if (x && x->live) {
                uint32_t s;
                if (ok && x->size && inside_live_backend_block(old, x->size, &s)) fail(i, "free did not release the backend block");
                x->live = false;
            } else st.probe("free_null");
            break;
        }
        case OP_A_SELFTEST: {
            int live_before = heap_live_count();
            errno = entry_errno(i, false);
            call_begin(i, -1, mid, FaultPlan());
            LIBCALL_RUN({ rc = uriTestMemoryManager(mem); }, ok); call_end();
            if (!ok) break;
            if (rc != URI_SUCCESS) fail(i, "uriTestMemoryManager on the completed manager returned " + std::to_string(rc));
            if (heap_live_count() != live_before) fail(i, "uriTestMemoryManager left blocks allocated in the backend");
            st.probe("selftest");
            break;
        }
        default: break;
        }
        // cross-invariant: every live handle still intact
        if (!g.abort_run) for (int k = 0; k < 8; k++) if (h[k].live && h[k].size) {
            uint32_t s;
            if (!inside_live_backend_block(h[k].p, h[k].size, &s)) { fail(i, "live block h" + std::to_string(k) + " is no longer backed by a live backend block after this call"); break; }
            // full comparison for the block the call was about, head and tail (256 bytes each) for the others
            bool same = (k == ha || h[k].size <= 512) ? check_content(h[k], h[k].p, h[k].size)
                                                      : (check_content(h[k], h[k].p, 256) && [&] { Handle t = h[k]; size_t off = t.size - 256; for (size_t z = 0; z < 256; z++) if (t.p[off + z] != (unsigned char)(t.pat + (unsigned char)(off + z))) return false; return true; }());
            if (!same) { fail(i, "contents of live block h" + std::to_string(k) + " changed during a call on another block"); break; }
        }
        if (has_relevant()) break;
    }
    // free everything, backend must be empty
    if (!g.abort_run && !has_relevant()) {
        int n = (int)plan.ops.size();
        for (int k = 0; k < 8 && !g.abort_run; k++) if (h[k].live) {
            bool ok = true; (void)ok; unsigned char* p = h[k].p; select_mgr(k);
            call_begin(n, -1, mid, FaultPlan()); LIBCALL_RUN({ mem->free(mem, p); }, ok); call_end();
            h[k].live = false;
        }
        int live = heap_live_count();
        if (live && !g.abort_run) { g.cur->op = n; violate(V_LEAK_AT_END, "after the caller freed everything " + std::to_string(live) + " backend block(s) are outstanding: " + heap_live_desc(), false); }
    }
    st.trials++; st.loads += g.loads; st.stores += g.stores; st.edges += g.edges; st.events += g.ev_count; st.evh = mix64(st.evh, g.ev_hash);
    if (plan.ops.size() >= 2) { st.nontrivial++; st.signatures.insert(sig ^ (any_fault ? 0x1111 : 0)); }
    for (auto& v : g.violations) {
        if (!kind_relevant("C15", v.kind)) { st.anomalies[vkind_name(v.kind)]++; continue; }
        Verdict d; d.violated = true; d.kind = v.kind; d.op = v.op; d.detail = v.detail;
        d.op_kind = (v.op >= 0 && v.op < (int)plan.ops.size()) ? opkind_name(plan.ops[(size_t)v.op].kind) : (v.op < 0 ? "-" : "end");
        d.concrete = plan; d.ev_hash = g.ev_hash;
        return d;
    }
    return none;
}

}  // namespace sim
