#include "rt.h"
#include <sys/mman.h>
#include <signal.h>
#include <unistd.h>
#include <errno.h>
#include <stdarg.h>
#include <stdio.h>
#include <stdlib.h>
#include <wchar.h>
#include <link.h>
#include <pthread.h>
#include <algorithm>
#include <map>
#include <unordered_map>

namespace sim {

Arena g_arena[A_COUNT];
Global g;
sigjmp_buf g_run_jmp; bool g_run_jmp_set; bool g_run_abandoned;
uint8_t* g_guard_hit; uint32_t g_n_guards;
const uintptr_t* g_pcs_beg; const uintptr_t* g_pcs_end;

static const uintptr_t kBase[A_COUNT] = {0x7e0000000000ull, 0x7e1000000000ull, 0x7e2000000000ull};
static const size_t kSize[A_COUNT] = {32u << 20, 64u << 20, 96u << 20};
static const char* kArenaName[A_COUNT] = {"text", "obj", "heap"};

static std::unordered_map<uint32_t, uint32_t> g_blk_at;               // heap offset -> block index
static std::map<uint32_t, std::vector<uint32_t>> g_free_by_size;      // lifo reuse

struct Seg { uintptr_t lo, hi; bool w; bool tls = false; };
static std::vector<Seg> g_image;
static uintptr_t g_errno_addr = 0;
static uintptr_t g_main_stack_lo = 0, g_main_stack_hi = 0;

static void* map_fixed(uintptr_t at, size_t sz) {
    void* p = mmap((void*)at, sz, PROT_READ | PROT_WRITE, MAP_PRIVATE | MAP_ANONYMOUS | MAP_NORESERVE | MAP_FIXED_NOREPLACE, -1, 0);
    if (p == MAP_FAILED || (uintptr_t)p != at) {
        fprintf(stderr, "HARNESS-ERROR: cannot map arena at %#lx\n", (unsigned long)at);
        _exit(2);
    }
    return p;
}
static void* map_any(size_t sz) {
    void* p = mmap(nullptr, sz, PROT_READ | PROT_WRITE, MAP_PRIVATE | MAP_ANONYMOUS | MAP_NORESERVE, -1, 0);
    if (p == MAP_FAILED) { fprintf(stderr, "HARNESS-ERROR: mmap\n"); _exit(2); }
    return p;
}

void arenas_init() {
    if (g_arena[0].base) return;
    for (int i = 0; i < A_COUNT; i++) {
        g_arena[i].base = (uintptr_t)map_fixed(kBase[i], kSize[i]);
        g_arena[i].size = kSize[i];
        g_arena[i].shadow = (uint8_t*)map_any(kSize[i]);
        g_arena[i].race = (uint16_t*)map_any(kSize[i] * 2);
        g_arena[i].used = 0;
        g_arena[i].hwm = 0;
    }
    g_errno_addr = (uintptr_t)&errno;
    pthread_attr_t at;
    if (pthread_getattr_np(pthread_self(), &at) == 0) {
        void* lo; size_t sz;
        pthread_attr_getstack(&at, &lo, &sz);
        g_main_stack_lo = (uintptr_t)lo; g_main_stack_hi = (uintptr_t)lo + sz;
        pthread_attr_destroy(&at);
    }
    g.main_ctx.stack_lo = g_main_stack_lo; g.main_ctx.stack_hi = g_main_stack_hi;
    g.main_ctx.task = 0;
    g.cur = &g.main_ctx;
    image_init();
}

void arenas_reset() {
    for (int i = 0; i < A_COUNT; i++) {
        Arena& a = g_arena[i];
        size_t n = std::max(a.hwm, a.used);
        if (n) {
            memset(a.shadow, 0, n);
            memset(a.race, 0, n * 2);
            // the data too: whatever a run reads beyond what it allocated (an unterminated string, a load the monitor records and lets
            // continue) must not be what an earlier run of this worker left there - a fresh process sees zeros, so does every run
            memset((void*)a.base, 0, n);
        }
        a.used = 0; a.hwm = 0;
    }
}

bool in_arena(const void* p, ArenaId* which) {
    uintptr_t a = (uintptr_t)p;
    for (int i = 0; i < A_COUNT; i++)
        if (a - g_arena[i].base < g_arena[i].size) { if (which) *which = (ArenaId)i; return true; }
    return false;
}

void* arena_alloc(ArenaId id, size_t bytes, size_t align, uint8_t pm) {
    Arena& a = g_arena[id];
    size_t off = (a.used + align - 1) & ~(align - 1);
    if (off + bytes + 64 > a.size) {
        // a resource limit of the simulator, not a verdict: the run is abandoned (counted), the worker goes on with the next one
        if (g_run_jmp_set) { g_run_abandoned = true; g.abort_run = true; g_run_jmp_set = false; siglongjmp(g_run_jmp, 2); }
        fprintf(stderr, "HARNESS-ERROR: arena %s exhausted\n", kArenaName[id]); _exit(2);
    }
    a.used = off + bytes;
    if (a.used > a.hwm) a.hwm = a.used;
    if (bytes) memset(a.shadow + off, pm, bytes);
    return (void*)(a.base + off);
}

void set_perm(const void* p, size_t bytes, uint8_t pm) {
    ArenaId id;
    if (!bytes) return;
    if (!in_arena(p, &id)) { fprintf(stderr, "HARNESS-ERROR: set_perm outside arenas\n"); _exit(2); }
    Arena& a = g_arena[id];
    size_t off = (uintptr_t)p - a.base;
    memset(a.shadow + off, pm, bytes);
    if (off + bytes > a.hwm) a.hwm = off + bytes;
}
uint8_t get_perm(const void* p) {
    ArenaId id;
    if (!in_arena(p, &id)) return 0;
    return g_arena[id].shadow[(uintptr_t)p - g_arena[id].base];
}

std::string addr_name(const void* p) {
    char buf[96];
    uintptr_t a = (uintptr_t)p;
    ArenaId id;
    if (!p) return "NULL";
    if (in_arena(p, &id)) {
        if (id == A_HEAP) {
            Block* b = heap_find_containing(p);
            if (b) { snprintf(buf, sizeof buf, "heap:blk#%u%+ld(size %u,%s)", b->serial, (long)(a - (g_arena[A_HEAP].base + b->off)), b->size, b->live ? "live" : "freed"); return buf; }
        }
        snprintf(buf, sizeof buf, "%s+%#lx", kArenaName[id], (unsigned long)(a - g_arena[id].base));
        return buf;
    }
    if (g.cur && a >= g.cur->stack_lo && a < g.cur->stack_hi) return "stack";
    for (auto& s : g_image) if (a >= s.lo && a < s.hi) return s.tls ? "thread-local" : s.w ? "image-data" : "image-ro";
    return "unknown-memory";
}

// ---------------------------------------------------------------- image segments
static int phdr_cb(struct dl_phdr_info* info, size_t, void*) {
    for (int i = 0; i < info->dlpi_phnum; i++) {
        const ElfW(Phdr)& ph = info->dlpi_phdr[i];
        if (ph.p_type != PT_LOAD) continue;
        Seg s; s.lo = info->dlpi_addr + ph.p_vaddr; s.hi = s.lo + ph.p_memsz; s.w = (ph.p_flags & PF_W) != 0;
        g_image.push_back(s);
    }
    // the module's thread-local block of this thread (all simulated tasks run on one thread): libc keeps the <ctype.h> table
    // pointers and errno there, so a library that uses isdigit()/tolower() loads from it; a store is static state all the same
    if (info->dlpi_tls_data)
        for (int i = 0; i < info->dlpi_phnum; i++) {
            const ElfW(Phdr)& ph = info->dlpi_phdr[i];
            if (ph.p_type != PT_TLS || !ph.p_memsz) continue;
            Seg s; s.lo = (uintptr_t)info->dlpi_tls_data; s.hi = s.lo + ph.p_memsz; s.w = true; s.tls = true;
            g_image.push_back(s);
        }
    return 0;
}
void image_init() {
    g_image.clear();
    dl_iterate_phdr(phdr_cb, nullptr);
    // read-only file mappings that are not program segments: the locale archives glibc maps in setlocale() (the <ctype.h> tables of a
    // UTF-8 locale live there); loads from them are as harmless as loads from libc's own read-only data
    if (FILE* m = fopen("/proc/self/maps", "r")) {
        char line[512];
        while (fgets(line, sizeof line, m)) {
            unsigned long lo = 0, hi = 0; char perms[8] = {0}; unsigned long off = 0; char dev[16] = {0}; unsigned long ino = 0; char path[256] = {0};
            int n = sscanf(line, "%lx-%lx %7s %lx %15s %lu %255s", &lo, &hi, perms, &off, dev, &ino, path);
            if (n < 7 || perms[0] != 'r' || perms[1] == 'w' || path[0] != '/') continue;
            bool covered = false;
            for (auto& sgm : g_image) if (lo >= sgm.lo && hi <= sgm.hi) covered = true;
            if (covered) continue;
            bool overlap = false;
            for (auto& sgm : g_image) if (lo < sgm.hi && sgm.lo < hi) overlap = true;
            if (overlap) continue;   // partly a program segment already: leave it to the segment table
            Seg sg; sg.lo = lo; sg.hi = hi; sg.w = false;
            g_image.push_back(sg);
        }
        fclose(m);
    }
    std::sort(g_image.begin(), g_image.end(), [](const Seg& a, const Seg& b) { return a.lo < b.lo; });
}

// ---------------------------------------------------------------- names
const char* vkind_name(VKind k) {
    static const char* n[] = {"none", "crash", "read-out-of-window", "read-dead-source", "store-input-text", "store-const-arg",
        "const-arg-changed", "store-static", "wild-access", "heap-overflow", "touch-freed", "store-beyond-cap",
        "double-free", "foreign-free", "bad-free", "bypass", "leak-after-release", "leak-at-end", "leak-after-failure",
        "alloc-before-reject", "wrong-rc", "no-recovery", "result-differs", "roundtrip", "structure", "equals",
        "owner-changed", "size-contract", "query-roundtrip", "query-chars", "intmax", "alloc-model", "data-race", "trap", "harness"};
    static_assert(sizeof(n) / sizeof(n[0]) == V_KIND_COUNT, "names");
    return (k >= 0 && k < V_KIND_COUNT) ? n[k] : "?";
}

// ---------------------------------------------------------------- events / violations
void event(const char* fmt, ...) {
    char buf[512];
    va_list ap; va_start(ap, fmt);
    int n = vsnprintf(buf, sizeof buf, fmt, ap);
    va_end(ap);
    if (n < 0) n = 0;
    if (n >= (int)sizeof buf) n = sizeof buf - 1;
    g.ev_hash = fnv1a(buf, (size_t)n, g.ev_hash);
    g.ev_hash = fnv1a("\n", 1, g.ev_hash);
    g.ev_count++;
    if (g.trace_sink) g.trace_sink->push_back(std::string(buf, (size_t)n));
    if (g.trace) { fwrite(buf, 1, (size_t)n, stderr); fputc('\n', stderr); }
}

void violate(VKind k, const std::string& detail, bool failstop) {
    int saved_errno = errno;
    int same = 0; for (auto& x : g.violations) if (x.kind == k) same++;
    if (g.violations.size() < 32 && same < 3) {   // a few of each kind: a flood of one kind must not crowd out the others
        Violation v; v.kind = k; v.op = g.cur ? g.cur->op : -1; v.detail = detail;
        g.violations.push_back(v);
    }
    if (same < 8) event("VIOLATION %s op=%d %s", vkind_name(k), g.cur ? g.cur->op : -1, detail.c_str());
    errno = saved_errno;
    if (failstop) {
        g.abort_run = true;
        // leave the library call at once (also when we are inside an allocator callback or a monitor callback of that call)
        if (g.cur && g.cur->jmp_set) siglongjmp(g.cur->jmp, 1);
    }
}

// Writable static data of the library objects (their .data/.bss are renamed to these sections by the build; today they hold the
// constant default-manager table only). One run must not inherit state from the run before it in the same worker process - a
// changed library that keeps a cache or counter there would otherwise make runs depend on each other and break replay - so the
// initial contents are restored at the start of every run.
extern "C" {
extern char __start_urilib_data[] __attribute__((weak)), __stop_urilib_data[] __attribute__((weak));
extern char __start_urilib_bss[] __attribute__((weak)), __stop_urilib_bss[] __attribute__((weak));
}
static std::string g_lib_data0, g_lib_bss0; static bool g_lib_snap = false;
unsigned long long g_lib_static_resets = 0;
static void lib_statics_reset() {
    char* d0 = __start_urilib_data; char* d1 = __stop_urilib_data; char* b0 = __start_urilib_bss; char* b1 = __stop_urilib_bss;
    if (!g_lib_snap) { if (d0 && d1 > d0) g_lib_data0.assign(d0, (size_t)(d1 - d0)); if (b0 && b1 > b0) g_lib_bss0.assign(b0, (size_t)(b1 - b0)); g_lib_snap = true; return; }
    bool changed = false;
    if (!g_lib_data0.empty() && memcmp(d0, g_lib_data0.data(), g_lib_data0.size()) != 0) { memcpy(d0, g_lib_data0.data(), g_lib_data0.size()); changed = true; }
    if (!g_lib_bss0.empty() && memcmp(b0, g_lib_bss0.data(), g_lib_bss0.size()) != 0) { memcpy(b0, g_lib_bss0.data(), g_lib_bss0.size()); changed = true; }
    if (changed) g_lib_static_resets++;
}

__attribute__((noinline)) void poison_stack_shallow() {
    unsigned char buf[1024];
    memset(buf, (int)((g.junk_seed >> 23) & 0xff) | 0x41, sizeof buf);
    __asm__ volatile("" : : "r"(buf) : "memory");
}
__attribute__((noinline)) void poison_stack_deep(size_t bytes) {
    // stay clear of the guard page / the end of the stack of the running context
    unsigned char here; uintptr_t sp = (uintptr_t)&here;
    uintptr_t lo = g.cur ? g.cur->stack_lo : 0;
    if (lo && sp > lo + 65536 && bytes > sp - lo - 65536) bytes = sp - lo - 65536;
    if (bytes > (1u << 20)) bytes = 1u << 20;
    unsigned char* p = (unsigned char*)__builtin_alloca(bytes);
    memset(p, (int)((g.junk_seed >> 23) & 0xff) | 0x41, bytes);
    __asm__ volatile("" : : "r"(p) : "memory");
}

void run_reset(uint64_t junk_seed, ReusePolicy reuse, int redzone) {
    lib_statics_reset();
    arenas_reset();
    g.reuse = reuse; g.junk_seed = junk_seed; g.redzone = redzone < 16 ? 16 : redzone;
    g.align8 = ((junk_seed >> 29) & 3) == 0;   // one run in four: blocks at 8 (mod 16)
    g.blocks.clear(); g_blk_at.clear(); g_free_by_size.clear();
    for (auto& h : g_huge) if (h.live) madvise((void*)(h.addr & ~(uintptr_t)4095), (h.size + 8191) & ~(size_t)4095, MADV_DONTNEED);
    g_huge.clear(); g.allow_huge = false;
    g.hs = HeapStats(); g.serial = 0; g.live_blocks = 0;
    g.violations.clear(); g.abort_run = false;
    g.ev_hash = 1469598103934665603ull; g.ev_count = 0;
    g.cur = &g.main_ctx;
    g.main_ctx.in_call = false; g.main_ctx.jmp_set = false; g.main_ctx.op = -1; g.main_ctx.tag = -1;
    g.main_ctx.expect_mgr = -1; g.main_ctx.fault = FaultPlan(); g.main_ctx.req_count = 0; g.main_ctx.fired = 0;
    g.conc = false; g.yield_hook = nullptr;
    g.loads = g.stores = g.edges = 0;
    g.giant_lo = g.giant_hi = 0; g.load_faults = 0;
    g.step_budget = 30000000ull;
    poison_stack_deep(96 * 1024);
}

// ---------------------------------------------------------------- heap
static inline uint8_t junk_byte(uint32_t serial, uint32_t i) {
    uint64_t x = g.junk_seed ^ ((uint64_t)serial * 0x9E3779B97F4A7C15ull) ^ ((uint64_t)(i >> 3) * 0xD6E8FEB86659FD93ull);
    x ^= x >> 29; x *= 0xBF58476D1CE4E5B9ull; x ^= x >> 32;
    uint8_t b = (uint8_t)(x >> ((i & 7) * 8));
    return b ? b : 0xA5;   // never 0: junk must not look like a terminator by luck only; 0 is covered by calloc
}

static bool should_fail(CallCtx* c) {
    const FaultPlan& f = c->fault;
    if (f.k <= 0) return false;
    int r = c->req_count;
    if (r == f.k) return true;
    if (r < f.k) return false;
    if (f.mode == 1) return true;
    if (f.mode == 2) { int i = r - f.k - 1; return i < 64 && ((f.set >> i) & 1); }
    return false;
}

void* heap_malloc(int mgr, size_t size, bool zero, const char* what) {
    if (g.yield_hook && g.cur->in_call) g.yield_hook(-1);   // allocator entry is a scheduling point
    CallCtx* c = g.cur;
    int saved_in = c->in_call;
    c->in_call = false;   // harness code from here on
    if (saved_in && mgr > 0 && c->expect_mgr > 0 && mgr != c->expect_mgr)
        violate(V_BYPASS, "the call was given manager m" + std::to_string(c->expect_mgr) + " but a request (" + what + ") arrived at manager m" + std::to_string(mgr), false);
    void* res = nullptr;
    bool counted = saved_in;
    if (counted) c->req_count++;
    if (counted && should_fail(c)) {
        c->fired++; g.hs.failed++;
        event("m%d %s(%zu) -> NULL [injected, req %d]", mgr, what, size, c->req_count);
        errno = ENOMEM;
        c->in_call = saved_in;
        return nullptr;
    }
    Arena& a = g_arena[A_HEAP];
    size_t rz = (size_t)g.redzone;
    if (g.allow_huge && counted && size > (a.size >> 2) && size <= (6ull << 30)) {
        // sparse grant: address space only, pages appear when touched and are dropped again on release
        static uintptr_t region = 0, used = 0; const size_t region_size = 64ull << 30;
        if (!region) { void* r = mmap(nullptr, region_size, PROT_READ | PROT_WRITE, MAP_PRIVATE | MAP_ANONYMOUS | MAP_NORESERVE, -1, 0); if (r != MAP_FAILED) region = (uintptr_t)r; }
        size_t need = (size + 2 * 4096 + 4095) & ~(size_t)4095;
        if (region && g_huge.empty()) used = 0;                     // new run: start over (blocks of the previous run were dropped in run_reset)
        if (region && used + need <= region_size) {
            HugeBlock hb; hb.addr = region + used + 4096 + (g.align8 ? 8 : 0); hb.size = size; hb.serial = ++g.serial; hb.mgr = mgr; hb.live = true;
            used += need; g_huge.push_back(hb); g.live_blocks++; g.hs.mallocs++;
            event("m%d %s(%zu) -> blk#%u [sparse]", mgr, what, size, hb.serial);
            c->in_call = saved_in;
            return (void*)hb.addr;
        }
    }
    if (size > (a.size >> 2) || a.used + size + 2 * rz + 64 > a.size) {
        g.hs.failed++;
        event("m%d %s(%zu) -> NULL [too large]", mgr, what, size);
        errno = ENOMEM;
        c->in_call = saved_in;
        return nullptr;
    }
    uint32_t off = 0; bool reused = false;
    if (g.reuse == REUSE_LIFO) {
        auto it = g_free_by_size.find((uint32_t)size);
        if (it != g_free_by_size.end() && !it->second.empty()) {
            uint32_t bi = it->second.back(); it->second.pop_back();
            off = g.blocks[bi].off; reused = true; g.hs.reused++;
        }
    }
    if (!reused) {
        size_t start = (a.used + 15) & ~(size_t)15;
        memset(a.shadow + start, perm(0, RS_REDZONE), rz + (g.align8 ? 8 : 0));
        off = (uint32_t)(start + rz + (g.align8 ? 8 : 0));
        size_t end = (off + size + 15) & ~(size_t)15;
        memset(a.shadow + off + size, perm(0, RS_REDZONE), end - (off + size) + rz);
        a.used = end + rz;
        if (a.used > a.hwm) a.hwm = a.used;
        // red-zone pattern: the independent check (on free and at the end of the run) for stores the monitor cannot see
        memset((void*)(a.base + start), 0xFB, rz + (g.align8 ? 8 : 0));
        memset((void*)(a.base + off + size), 0xFB, end - (off + size) + rz);
    }
    Block b; b.off = off; b.size = (uint32_t)size; b.serial = ++g.serial; b.mgr = (int16_t)mgr;
    b.tag = (int16_t)c->tag; b.op = c->op; b.req = c->req_count; b.live = 1; b.task = (uint8_t)c->task;
    g.blocks.push_back(b);
    g_blk_at[off] = (uint32_t)g.blocks.size() - 1;
    g.live_blocks++;
    uint8_t* p = (uint8_t*)(a.base + off);
    if (size) {
        memset(a.shadow + off, P_RW, size);
        if (zero) memset(p, 0, size);
        else for (size_t i = 0; i < size; i++) p[i] = junk_byte(b.serial, (uint32_t)i);
        if (g.conc) memset(a.race + off, 0, size * 2);
    }
    if (zero) g.hs.callocs++; else g.hs.mallocs++;
    event("m%d %s(%zu) -> blk#%u%s", mgr, what, size, b.serial, reused ? " [reused]" : "");
    res = p;
    c->in_call = saved_in;
    return res;
}

std::vector<HugeBlock> g_huge;
HugeBlock* huge_find(const void* p, bool containing) {
    uintptr_t a = (uintptr_t)p;
    for (auto& h : g_huge) if (containing ? (a >= h.addr && a < h.addr + h.size) : a == h.addr) return &h;
    return nullptr;
}
Block* heap_find(const void* p) {
    uintptr_t a = (uintptr_t)p;
    if (a - g_arena[A_HEAP].base >= g_arena[A_HEAP].size) return nullptr;
    auto it = g_blk_at.find((uint32_t)(a - g_arena[A_HEAP].base));
    if (it == g_blk_at.end()) return nullptr;
    return &g.blocks[it->second];
}
Block* heap_find_containing(const void* p) {
    uintptr_t a = (uintptr_t)p;
    if (a - g_arena[A_HEAP].base >= g_arena[A_HEAP].size) return nullptr;
    uint32_t off = (uint32_t)(a - g_arena[A_HEAP].base);
    Block* best = nullptr;
    for (size_t i = g.blocks.size(); i-- > 0;) {
        Block& b = g.blocks[i];
        uint32_t rz = (uint32_t)g.redzone;
        if (off + rz >= b.off && off < b.off + b.size + rz + 16) {
            if (!best) best = &b;
            if (b.live) return &b;
        }
    }
    return best;
}

bool heap_redzones_intact(const Block& b) {
    Arena& a = g_arena[A_HEAP];
    const uint8_t* m = (const uint8_t*)a.base;
    size_t rz = (size_t)g.redzone;
    for (size_t i = 1; i <= 16 && i <= rz; i++) if (m[b.off - i] != 0xFB) return false;
    size_t end = ((size_t)b.off + b.size + 15) & ~(size_t)15;
    for (size_t i = b.off + b.size; i < end + 16 && i < end + rz; i++) if (m[i] != 0xFB) return false;
    return true;
}
int heap_check_all_redzones() {
    int bad = 0;
    for (auto& b : g.blocks) if (b.live && !heap_redzones_intact(b)) bad++;
    return bad;
}

size_t heap_usable(const void* p) {
    uintptr_t a = (uintptr_t)p;
    if (a - g_arena[A_HEAP].base >= g_arena[A_HEAP].size) return 0;
    uint32_t off = (uint32_t)(a - g_arena[A_HEAP].base);
    for (size_t i = g.blocks.size(); i-- > 0;) { Block& b = g.blocks[i]; if (b.live && off >= b.off && off < b.off + b.size) return b.off + b.size - off; }
    return 0;
}

void heap_free(int mgr, void* p) {
    if (g.yield_hook && g.cur->in_call) g.yield_hook(-1);
    CallCtx* c = g.cur;
    int saved_in = c->in_call;
    c->in_call = false;
    if (saved_in) c->free_count++;
    if (saved_in && mgr > 0 && c->expect_mgr > 0 && mgr != c->expect_mgr)
        violate(V_BYPASS, "the call was given manager m" + std::to_string(c->expect_mgr) + " but a release arrived at manager m" + std::to_string(mgr), false);
    if (!p) {
        g.hs.free_null++;
        event("m%d free(NULL)", mgr);
        c->in_call = saved_in;
        return;
    }
    if (HugeBlock* hb = huge_find(p, false)) {
        if (!hb->live) { c->in_call = saved_in; violate(V_DOUBLE_FREE, "second release of sparse blk#" + std::to_string(hb->serial), true); return; }
        if (hb->mgr != mgr) { c->in_call = saved_in; violate(V_FOREIGN_FREE, "sparse blk#" + std::to_string(hb->serial) + " of manager m" + std::to_string(hb->mgr) + " released through m" + std::to_string(mgr), true); return; }
        hb->live = false; g.live_blocks--; g.hs.frees++; c->released_total++;
        madvise((void*)(hb->addr & ~(uintptr_t)4095), (hb->size + 8191) & ~(size_t)4095, MADV_DONTNEED);
        event("m%d free(blk#%u) [sparse]", mgr, hb->serial);
        c->in_call = saved_in;
        return;
    }
    Block* b = heap_find(p);
    if (!b) {
        c->in_call = saved_in;
        violate(V_BAD_FREE, "free of " + addr_name(p) + " which no manager handed out (manager m" + std::to_string(mgr) + ")", true);
        return;
    }
    if (!b->live) {
        c->in_call = saved_in;
        violate(V_DOUBLE_FREE, "second release of blk#" + std::to_string(b->serial) + " (size " + std::to_string(b->size) + ", requested in op " + std::to_string(b->op) + " req " + std::to_string(b->req) + ")", true);
        return;
    }
    if (b->mgr != mgr) {
        c->in_call = saved_in;
        violate(V_FOREIGN_FREE, "blk#" + std::to_string(b->serial) + " of manager m" + std::to_string(b->mgr) + " released through m" + std::to_string(mgr), true);
        return;
    }
    Arena& a = g_arena[A_HEAP];
    if (b->size && !(a.shadow[b->off] & P_W) && (a.shadow[b->off] >> 2) == RS_CONST_ARG) {
        c->in_call = saved_in;
        violate(V_STORE_CONST_ARG, "release of blk#" + std::to_string(b->serial) + " (size " + std::to_string(b->size) + "), which belongs to a read-only argument of a call in progress", true);
        return;
    }
    if (!heap_redzones_intact(*b)) {
        c->in_call = saved_in;
        violate(V_HEAP_OVERFLOW, "red zone of blk#" + std::to_string(b->serial) + " (size " + std::to_string(b->size) + ") was overwritten by code the monitor does not see", true);
        return;
    }
    b->live = 0; g.live_blocks--; g.hs.frees++; c->released_total++;
    if (b->size) {
        memset((void*)(a.base + b->off), 0xDD, b->size);
        memset(a.shadow + b->off, perm(0, RS_FREED), b->size);
        if (g.conc) memset(a.race + b->off, 0, (size_t)b->size * 2);
    }
    if (g.reuse == REUSE_LIFO) g_free_by_size[b->size].push_back((uint32_t)(b - &g.blocks[0]));
    event("m%d free(blk#%u)", mgr, b->serial);
    c->in_call = saved_in;
}

int heap_live_count(int mgr, int tag, int op) {
    int n = 0;
    if (tag < 0 && op < 0) for (auto& h : g_huge) if (h.live && (mgr < 0 || h.mgr == mgr)) n++;
    for (auto& b : g.blocks) if (b.live && (mgr < 0 || b.mgr == mgr) && (tag < 0 || b.tag == tag) && (op < 0 || b.op == op)) n++;
    return n;
}
std::string heap_live_desc(int mgr, int tag, int op) {
    std::string s; int n = 0;
    for (auto& b : g.blocks) if (b.live && (mgr < 0 || b.mgr == mgr) && (tag < 0 || b.tag == tag) && (op < 0 || b.op == op)) {
        if (n++ >= 6) { s += " ..."; break; }
        char buf[128];
        snprintf(buf, sizeof buf, "%sblk#%u(m%d,size %u,op %d req %d)", s.empty() ? "" : " ", b.serial, b.mgr, b.size, b.op, b.req);
        s += buf;
    }
    return s;
}
void heap_retag(int from_tag, int to_tag) {
    for (auto& b : g.blocks) if (b.live && b.tag == from_tag) b.tag = (int16_t)to_tag;
}

// ---------------------------------------------------------------- access monitor
static void report_access(uintptr_t a, size_t n, bool store, ArenaId id, uint8_t pm) {
    Reason r = (Reason)(pm >> 2);
    VKind k = V_WILD_ACCESS;
    char buf[256];
    if (id == A_HEAP) {
        if (r == RS_FREED) k = V_TOUCH_FREED;
        else if (r == RS_CONST_ARG) k = V_STORE_CONST_ARG;
        else k = V_HEAP_OVERFLOW;
    } else if (id == A_TEXT) {
        if (store) k = (r == RS_NOT_DECLARED || r == RS_REDZONE) ? V_STORE_BEYOND_CAP : V_STORE_INPUT_TEXT;
        else if (r == RS_DEAD_SOURCE) k = V_READ_DEAD_SOURCE;
        else k = V_READ_OUT_OF_WINDOW;
    } else {
        if (store) k = (r == RS_CONST_ARG) ? V_STORE_CONST_ARG : V_STORE_BEYOND_CAP;
        else k = V_READ_OUT_OF_WINDOW;
    }
    snprintf(buf, sizeof buf, "%s of %zu byte(s) at %s", store ? "store" : "load", n, addr_name((void*)a).c_str());
    // a load from released memory does not end the run: the memory is mapped and poisoned, and what the library does with the stale
    // value (a second release, a wild pointer) is what the ledger properties judge
    // (the same holds for every load inside the arenas - beyond the window, from a dead source, from a red zone: the byte is there,
    //  the violation is recorded, and what the library makes of the value is judged by the property that owns the consequence)
    g.load_faults++;
    violate(k, buf, store);
}

void check_access(uintptr_t a, size_t n, bool store) {
    CallCtx* c = g.cur;
    if (!c || !c->in_call || !g.monitor || n == 0) return;
    if (store) g.stores++; else g.loads++;
    const uint8_t need = store ? P_W : P_R;
    for (int i = 0; i < A_COUNT; i++) {
        Arena& ar = g_arena[i];
        uintptr_t off = a - ar.base;
        if (off < ar.size) {
            if (off + n > ar.size) { c->in_call = false; report_access(a, n, store, (ArenaId)i, 0); return; }
            const uint8_t* sh = ar.shadow + off;
            for (size_t j = 0; j < n; j++) {
                if (!(sh[j] & need)) { c->in_call = false; report_access(a + j, n - j, store, (ArenaId)i, sh[j]); c->in_call = true; return; }
            }
            if (g.conc) {
                uint16_t* rs = ar.race + off;
                const uint16_t me = (uint16_t)c->task;
                const uint16_t mebit = (uint16_t)(1u << (me & 7));
                for (size_t j = 0; j < n; j++) {
                    uint16_t v = rs[j];
                    uint16_t w = v >> 8;
                    bool race = (w && w - 1 != me) || (store && ((v & 0xff) & ~mebit));
                    if (race) {
                        char buf[200];
                        snprintf(buf, sizeof buf, "%s by task %d at %s conflicts with %s by another task (writer=%d readers=%#x)",
                                 store ? "store" : "load", c->task, addr_name((void*)(a + j)).c_str(), w ? "a store" : "loads", w ? w - 1 : -1, v & 0xff);
                        c->in_call = false;
                        violate(V_DATA_RACE, buf, true);
                        c->in_call = true;
                        return;
                    }
                    rs[j] = store ? (uint16_t)(((me + 1) << 8) | (v & 0xff) | mebit) : (uint16_t)(v | mebit);
                }
            }
            return;
        }
    }
    if (a >= c->stack_lo && a + n <= c->stack_hi) return;
    if (!g_huge.empty()) if (HugeBlock* hb = huge_find((void*)a, true)) {
        if (hb->live && a + n <= hb->addr + hb->size) return;
        c->in_call = false; violate(hb->live ? V_HEAP_OVERFLOW : V_TOUCH_FREED, std::string(store ? "store" : "load") + " at sparse blk#" + std::to_string(hb->serial) + (hb->live ? " beyond its size" : " after its release"), true); c->in_call = true; return;
    }
    if (a >= g.giant_lo && a + n <= g.giant_hi) { if (!store) return; }
    if (a >= g_errno_addr && a + n <= g_errno_addr + sizeof(int)) return;
    // image?
    {
        size_t lo = 0, hi = g_image.size();
        while (lo < hi) { size_t m = (lo + hi) / 2; if (g_image[m].hi <= a) lo = m + 1; else hi = m; }
        if (lo < g_image.size() && a >= g_image[lo].lo && a + n <= g_image[lo].hi) {
            if (!store) return;
            c->in_call = false;
            violate(V_STORE_STATIC, "store of " + std::to_string(n) + (g_image[lo].tls ? " byte(s) into thread-local static data" : " byte(s) into static/global data of the program image"), false);   // the run goes on: the memory is the library's own, and the consequence (cross-talk between callers) is what other properties judge
            c->in_call = true;
            return;
        }
    }
    c->in_call = false;
    char buf[128];
    snprintf(buf, sizeof buf, "%s of %zu byte(s) at an address that is neither stack, arena, heap nor image", store ? "store" : "load", n);
    violate(V_WILD_ACCESS, buf, true);
    c->in_call = true;
}

// ---------------------------------------------------------------- call guard / signals
void call_begin(int op, int tag, int expect_mgr, const FaultPlan& f) {
    CallCtx* c = g.cur;
    c->op = op; c->tag = tag; c->expect_mgr = expect_mgr; c->fault = f;
    c->req_count = 0; c->free_count = 0; c->fired = 0; c->steps = 0;
}
void call_end() {
    CallCtx* c = g.cur;
    c->fault = FaultPlan(); c->expect_mgr = -1; c->tag = -1;
}

static void on_signal(int sig, siginfo_t* si, void*) {
    CallCtx* c = g.cur;
    if (c && c->jmp_set) {
        char buf[160];
        bool incall = c->in_call;
        c->in_call = false;
        snprintf(buf, sizeof buf, "signal %d (%s%s) %s at %s", sig, strsignal(sig), sig == SIGILL ? ": bounds-check trap for a local array" : "", incall ? "inside library call" : "inside allocator callback/harness during library call",
                 (sig == SIGSEGV || sig == SIGBUS) ? addr_name(si->si_addr).c_str() : "-");
        if (g.violations.size() < 16) { Violation v; v.kind = V_CRASH; v.op = c->op; v.detail = buf; g.violations.push_back(v); }
        event("VIOLATION crash op=%d %s", c->op, buf);
        g.abort_run = true;
        siglongjmp(c->jmp, 1);
    }
    if (g_run_jmp_set) {
        // the harness itself faulted while inspecting what the library handed back (a bad pointer or length): for a caller that is a crash
        char buf[160];
        snprintf(buf, sizeof buf, "signal %d (%s) in the caller while using a result the library returned (op %d)", sig, strsignal(sig), c ? c->op : -1);
        if (g.violations.size() < 16) { Violation v; v.kind = V_CRASH; v.op = c ? c->op : -1; v.detail = buf; g.violations.push_back(v); }
        g.abort_run = true;
        g_run_jmp_set = false;
        siglongjmp(g_run_jmp, 1);
    }
    const char msg[] = "HARNESS-ERROR: fatal signal outside a library call\n";
    ssize_t r = write(2, msg, sizeof msg - 1); (void)r;
    _exit(2);
}

void install_signal_handlers() {
    static char* alt = nullptr;
    if (!alt) {
        alt = (char*)map_any(1 << 18);
        stack_t ss; ss.ss_sp = alt; ss.ss_size = 1 << 18; ss.ss_flags = 0;
        sigaltstack(&ss, nullptr);
    }
    struct sigaction sa; memset(&sa, 0, sizeof sa);
    sa.sa_sigaction = on_signal; sa.sa_flags = SA_SIGINFO | SA_ONSTACK | SA_NODEFER;
    sigemptyset(&sa.sa_mask);
    int sigs[] = {SIGSEGV, SIGBUS, SIGFPE, SIGILL, SIGABRT};
    for (int s : sigs) sigaction(s, &sa, nullptr);
}

// ---------------------------------------------------------------- coverage
uint32_t coverage_total() { return g_n_guards; }
uint32_t coverage_hit_count() { uint32_t n = 0; for (uint32_t i = 1; i <= g_n_guards; i++) n += g_guard_hit[i] ? 1 : 0; return n; }
void coverage_merge_into(std::vector<uint8_t>& acc) {
    if (acc.size() < g_n_guards + 1) acc.resize(g_n_guards + 1, 0);
    for (uint32_t i = 1; i <= g_n_guards; i++) if (g_guard_hit[i]) acc[i] = 1;
}

}  // namespace sim

using namespace sim;

// ================================================================= sancov callbacks (library code only is instrumented)
extern "C" {
void __sanitizer_cov_trace_pc_guard_init(uint32_t* start, uint32_t* stop) {
    if (start == stop || *start) return;
    uint32_t n = g_n_guards;
    for (uint32_t* x = start; x < stop; x++) *x = ++n;
    uint8_t* nh = (uint8_t*)calloc(n + 1, 1);
    if (g_guard_hit) { memcpy(nh, g_guard_hit, g_n_guards + 1); free(g_guard_hit); }
    g_guard_hit = nh; g_n_guards = n;
}
void __sanitizer_cov_pcs_init(const uintptr_t* beg, const uintptr_t* end) { if (!g_pcs_beg) { g_pcs_beg = beg; g_pcs_end = end; } }
void __sanitizer_cov_trace_pc_guard(uint32_t* guard) {
    g.edges++;
    if (g.cur->in_call && ++g.cur->steps > g.step_budget) {   // step budget per library call: a call that does not return is a crash-class violation
        g.cur->steps = 0;
        violate(V_CRASH, "library call exceeded the step budget of " + std::to_string(g.step_budget / 1000000) + "M control-flow edges (no progress)", true);
    }
    g_guard_hit[*guard] = 1;
    if (g.yield_hook) g.yield_hook((int)*guard);
}
void __sanitizer_cov_load1(uint8_t* a) { check_access((uintptr_t)a, 1, false); }
void __sanitizer_cov_load2(uint16_t* a) { check_access((uintptr_t)a, 2, false); }
void __sanitizer_cov_load4(uint32_t* a) { check_access((uintptr_t)a, 4, false); }
void __sanitizer_cov_load8(uint64_t* a) { check_access((uintptr_t)a, 8, false); }
void __sanitizer_cov_load16(void* a) { check_access((uintptr_t)a, 16, false); }
void __sanitizer_cov_store1(uint8_t* a) { check_access((uintptr_t)a, 1, true); }
void __sanitizer_cov_store2(uint16_t* a) { check_access((uintptr_t)a, 2, true); }
void __sanitizer_cov_store4(uint32_t* a) { check_access((uintptr_t)a, 4, true); }
void __sanitizer_cov_store8(uint64_t* a) { check_access((uintptr_t)a, 8, true); }
void __sanitizer_cov_store16(void* a) { check_access((uintptr_t)a, 16, true); }

// ================================================================= libc shims: the library objects' references to these
// libc symbols are renamed (objcopy --redefine-sym) to the sim_ names, so only library code gets here.
static void bypass_check(const char* what) {
    CallCtx* c = g.cur;
    if (c->in_call && c->expect_mgr > 0) {
        c->in_call = false;
        violate(V_BYPASS, std::string("library called libc ") + what + " while the call was given custom manager m" + std::to_string(c->expect_mgr), false);
        c->in_call = true;
    }
}
void* sim_malloc(size_t n) { bypass_check("malloc"); return heap_malloc(0, n, false, "malloc"); }
void* sim_calloc(size_t a, size_t b) {
    bypass_check("calloc");
    size_t t = a * b;
    if (a && t / a != b) { g.cur->req_count += g.cur->in_call ? 1 : 0; errno = ENOMEM; event("m0 calloc(overflow) -> NULL"); return nullptr; }
    return heap_malloc(0, t, true, "calloc");
}
void sim_free(void* p) { bypass_check("free"); heap_free(0, p); }
void* sim_realloc(void* p, size_t n) {
    bypass_check("realloc");
    if (!p) return heap_malloc(0, n, false, "realloc-new");
    if (n == 0) { heap_free(0, p); return nullptr; }
    Block* b = heap_find(p);
    if (!b || !b->live || b->mgr != 0) { violate(V_BAD_FREE, "realloc of a pointer that is not a live libc block", true); return nullptr; }
    uint32_t old = b->size;
    void* q = heap_malloc(0, n, false, "realloc");
    if (!q) return nullptr;
    memcpy(q, p, old < n ? old : n);
    heap_free(0, p);
    return q;
}
void* sim_reallocarray(void* p, size_t a, size_t b) {
    size_t t = a * b;
    if (a && t / a != b) { errno = ENOMEM; return nullptr; }
    return sim_realloc(p, t);
}
void* sim_memcpy(void* d, const void* s, size_t n) {
    if (n) { check_access((uintptr_t)s, n, false); check_access((uintptr_t)d, n, true); }
    return memmove(d, s, n);
}
void* sim_memmove(void* d, const void* s, size_t n) { return sim_memcpy(d, s, n); }
void* sim_memset(void* d, int c, size_t n) {
    if (n) check_access((uintptr_t)d, n, true);
    return memset(d, c, n);
}
int sim_memcmp(const void* a, const void* b, size_t n) {
    if (n) { check_access((uintptr_t)a, n, false); check_access((uintptr_t)b, n, false); }
    return memcmp(a, b, n);
}
size_t sim_strlen(const char* s) {
    if ((uintptr_t)s >= g.giant_lo && (uintptr_t)s < g.giant_hi) return strlen(s);   // giant read-only mirror region: wholly readable
    size_t i = 0; const unsigned long long lf = g.load_faults;
    for (;; i++) { check_access((uintptr_t)(s + i), 1, false); if (g.abort_run || !s[i]) break; if (g.load_faults != lf && i > 4096) { violate(V_WILD_ACCESS, "string scan ran 4096 characters past the readable window without finding a terminator", true); break; } }
    return i;
}
size_t sim_wcslen(const wchar_t* s) {
    if ((uintptr_t)s >= g.giant_lo && (uintptr_t)s < g.giant_hi) return wcslen(s);
    size_t i = 0; const unsigned long long lf = g.load_faults;
    for (;; i++) { check_access((uintptr_t)(s + i), sizeof(wchar_t), false); if (g.abort_run || !s[i]) break; if (g.load_faults != lf && i > 4096) { violate(V_WILD_ACCESS, "string scan ran 4096 characters past the readable window without finding a terminator", true); break; } }
    return i;
}
int sim_strncmp(const char* a, const char* b, size_t n) {
    for (size_t i = 0; i < n; i++) {
        check_access((uintptr_t)(a + i), 1, false); check_access((uintptr_t)(b + i), 1, false);
        unsigned char x = (unsigned char)a[i], y = (unsigned char)b[i];
        if (x != y) return x < y ? -1 : 1;
        if (!x) return 0;
    }
    return 0;
}
int sim_wcsncmp(const wchar_t* a, const wchar_t* b, size_t n) {
    for (size_t i = 0; i < n; i++) {
        check_access((uintptr_t)(a + i), sizeof(wchar_t), false); check_access((uintptr_t)(b + i), sizeof(wchar_t), false);
        if (a[i] != b[i]) return a[i] < b[i] ? -1 : 1;
        if (!a[i]) return 0;
    }
    return 0;
}
// ---- further libc routines the unchanged library does not import but a changed one plausibly would
const void* sim_memchr(const void* p, int c, size_t n) {
    const void* r = memchr(p, c, n);
    size_t touched = r ? (size_t)((const char*)r - (const char*)p) + 1 : n;
    if (touched) check_access((uintptr_t)p, touched, false);
    return r;
}
const wchar_t* sim_wmemchr(const wchar_t* p, wchar_t c, size_t n) {
    const wchar_t* r = wmemchr(p, c, n);
    size_t touched = r ? (size_t)(r - p) + 1 : n;
    if (touched) check_access((uintptr_t)p, touched * sizeof(wchar_t), false);
    return r;
}
const char* sim_strchr(const char* s, int c) { size_t n = sim_strlen(s); if (g.abort_run) return nullptr; return (const char*)memchr(s, c, n + 1); }
const wchar_t* sim_wcschr(const wchar_t* s, wchar_t c) { size_t n = sim_wcslen(s); if (g.abort_run) return nullptr; return wmemchr(s, c, n + 1); }
const char* sim_strrchr(const char* s, int c) { sim_strlen(s); if (g.abort_run) return nullptr; return strrchr(s, c); }
int sim_strcmp(const char* a, const char* b) { return sim_strncmp(a, b, (size_t)-1 >> 1); }
int sim_wcscmp(const wchar_t* a, const wchar_t* b) { return sim_wcsncmp(a, b, (size_t)-1 >> 3); }
char* sim_strcpy(char* d, const char* s) { size_t n = sim_strlen(s); if (g.abort_run) return d; check_access((uintptr_t)d, n + 1, true); return (char*)memmove(d, s, n + 1); }
wchar_t* sim_wcscpy(wchar_t* d, const wchar_t* s) { size_t n = sim_wcslen(s); if (g.abort_run) return d; check_access((uintptr_t)d, (n + 1) * sizeof(wchar_t), true); return (wchar_t*)memmove(d, s, (n + 1) * sizeof(wchar_t)); }
char* sim_strncpy(char* d, const char* s, size_t n) { if (n) { size_t l = 0; while (l < n) { check_access((uintptr_t)(s + l), 1, false); if (g.abort_run || !s[l]) break; l++; } check_access((uintptr_t)d, n, true); } return strncpy(d, s, n); }
wchar_t* sim_wcsncpy(wchar_t* d, const wchar_t* s, size_t n) { if (n) { size_t l = 0; while (l < n) { check_access((uintptr_t)(s + l), sizeof(wchar_t), false); if (g.abort_run || !s[l]) break; l++; } check_access((uintptr_t)d, n * sizeof(wchar_t), true); } return wcsncpy(d, s, n); }
wchar_t* sim_wmemcpy(wchar_t* d, const wchar_t* s, size_t n) { return (wchar_t*)sim_memcpy(d, s, n * sizeof(wchar_t)); }
wchar_t* sim_wmemcpy2(wchar_t* d, const wchar_t* s, size_t n) { return (wchar_t*)sim_memcpy(d, s, n * sizeof(wchar_t)); }
wchar_t* sim_wmemset(wchar_t* d, wchar_t c, size_t n) { if (n) check_access((uintptr_t)d, n * sizeof(wchar_t), true); return wmemset(d, c, n); }
int sim_wmemcmp(const wchar_t* a, const wchar_t* b, size_t n) { if (n) { check_access((uintptr_t)a, n * sizeof(wchar_t), false); check_access((uintptr_t)b, n * sizeof(wchar_t), false); } return wmemcmp(a, b, n); }
size_t sim_strnlen(const char* s, size_t n) { size_t i = 0; for (; i < n; i++) { check_access((uintptr_t)(s + i), 1, false); if (g.abort_run || !s[i]) break; } return i; }
size_t sim_wcsnlen(const wchar_t* s, size_t n) { size_t i = 0; for (; i < n; i++) { check_access((uintptr_t)(s + i), sizeof(wchar_t), false); if (g.abort_run || !s[i]) break; } return i; }
// formatted output: the real routine writes at most n characters; what it wrote is checked afterwards (the arenas are mapped, an
// overrun lands in a red zone and is reported, and the canaries around caller buffers catch it independently)
int sim_snprintf(char* buf, size_t n, const char* fmt, ...) {
    va_list ap; va_start(ap, fmt); int r = vsnprintf(buf, n, fmt, ap); va_end(ap);
    if (n) { size_t w = r < 0 ? n : ((size_t)r + 1 < n ? (size_t)r + 1 : n); check_access((uintptr_t)buf, w, true); }
    return r;
}
int sim_sprintf(char* buf, const char* fmt, ...) {
    va_list ap; va_start(ap, fmt); int r = vsprintf(buf, fmt, ap); va_end(ap);
    if (r >= 0) check_access((uintptr_t)buf, (size_t)r + 1, true);
    return r;
}
int sim_swprintf(wchar_t* buf, size_t n, const wchar_t* fmt, ...) {
    va_list ap; va_start(ap, fmt); int r = vswprintf(buf, n, fmt, ap); va_end(ap);
    if (n) { size_t w = r < 0 ? n : ((size_t)r + 1 < n ? (size_t)r + 1 : n); check_access((uintptr_t)buf, w * sizeof(wchar_t), true); }
    return r;
}
// -fsanitize=bounds on the library objects: an index outside a fixed-size array (the library's own stack arrays are not covered by
// the access monitor, which allows the whole stack of the running task). Indexing through a pointer into a local array is checked
// too (local-bounds), but as a trap instruction: it arrives as SIGILL and is reported by the signal handler.
struct UbsanSrcLoc { const char* file; uint32_t line, col; };
struct UbsanOutOfBounds { UbsanSrcLoc loc; const void* array_type; const void* index_type; };
void __ubsan_handle_out_of_bounds(UbsanOutOfBounds* d, uintptr_t index) {
    CallCtx* c = g.cur;
    bool in = c->in_call;
    c->in_call = false;
    const char* f = d && d->loc.file ? d->loc.file : "?";
    const char* sl = strrchr(f, '/');
    char buf[256];
    snprintf(buf, sizeof buf, "index %ld is outside the bounds of a fixed-size array at %s:%u", (long)index, sl ? sl + 1 : f, d ? d->loc.line : 0);
    violate(V_WILD_ACCESS, buf, true);
    c->in_call = in;
}
void sim_assert_fail(const char* expr, const char* file, unsigned line, const char*) {
    CallCtx* c = g.cur;
    c->in_call = false;
    violate(V_CRASH, std::string("assertion failed: ") + expr + " at " + file + ":" + std::to_string(line), true);
    abort();
}
}
