// Op implementations of Exec<C>.
#pragma once

namespace sim {

template <class C> void Exec<C>::exec_op(int i) {
    const Op& op = plan.ops[(size_t)i];
    OpOut& o = outs[(size_t)i];
    o = OpOut();
    cur_op = i;
    g.cur->op = i;
    size_t nviol = g.violations.size();
    switch (op.kind) {
    case OP_PARSE: exec_parse(i, op, o); break;
    case OP_ADDBASE: exec_resolve(i, op, o, true); break;
    case OP_REMOVEBASE: exec_resolve(i, op, o, false); break;
    case OP_NORMALIZE: exec_inplace(i, op, o, true); break;
    case OP_MAKEOWNER: exec_inplace(i, op, o, false); break;
    case OP_TOSTRING: exec_tostring(i, op, o); break;
    case OP_FREE: {
        int s = op.a;
        if (s < 0 || s >= N_USLOTS || us[s].state == S_EMPTY) break;
        o.skipped = false;
        event("op %d free u%d state=%d", i, s, us[s].state);
        if (mgr_of(op.mgr).kind == MK_INCOMPLETE && (us[s].state == S_VALID || us[s].state == S_STALE)) {
            // the release call itself must reject an incomplete manager before touching anything
            MgrInst& im = mgr_of(op.mgr); Uri* u = us[s].u; std::string before = snapshot(u); volatile int rc = 0;
            if (!call(i, s, op.mgr, FaultPlan(), [&] { rc = A::FreeUriMembersMm(u, im.table); })) { o.aborted = true; break; }
            if (rc != URI_ERROR_MEMORY_MANAGER_INCOMPLETE) violate(V_ALLOC_BEFORE_REJECT, "uriFreeUriMembersMm with an incomplete manager returned " + std::to_string(rc), false);
            if (outs_tmp_reqs || outs_tmp_frees) violate(V_ALLOC_BEFORE_REJECT, "uriFreeUriMembersMm with an incomplete manager used the manager before rejecting it", false);
            (void)before;
            o.digest = "rejected";
            break;
        }
        mark_dependents_stale(s);
        if (!free_slot(i, s, op.entry, 1 + op.refree)) { o.aborted = true; break; }
        us[s].state = S_FREED; us[s].owned = false; us[s].texts.clear(); us[s].deps.clear();
        o.digest = "freed";
        break;
    }
    case OP_LOSE: {
        int s = op.a;
        if (s < 0 || s >= N_USLOTS || us[s].state != S_VALID || !loss_enabled) break;
        o.skipped = false;
        o.aux = (int)us[s].ever.size();   // number of source buffers that die
        lose_sources(s);
        o.digest = "lost";
        break;
    }
    case OP_EQUALS: {
        bool na = (op.opt & 1) != 0, nb = (op.opt & 2) != 0;
        if ((!na && !uri_ok(op.a)) || (!nb && !uri_ok(op.b))) break;
        o.skipped = false;
        const Uri* a = na ? nullptr : us[op.a].u; const Uri* b = nb ? nullptr : us[op.b].u;
        Prot pr; std::string sa, sb;
        if (a) { protect(pr, a); sa = snapshot(a); }
        if (b) { protect(pr, b); sb = snapshot(b); }
        volatile int r = 0;
        bool ok = call(i, -1, -1, FaultPlan(), [&] { r = A::EqualsUri(a, b); });
        unprotect(pr);
        if (!ok) { o.aborted = true; break; }
        if ((a && snapshot(a) != sa) || (b && snapshot(b) != sb)) violate(V_CONST_ARG_CHANGED, "an operand of uriEqualsUri was modified", false);
        o.aux = r; o.digest = r ? "equal" : "unequal";
        event("op %d equals -> %d", i, (int)r);
        break;
    }
    case OP_MASKREQ: {
        if (!uri_ok(op.a)) break;
        o.skipped = false;
        const Uri* u = us[op.a].u;
        Prot pr; protect(pr, u); std::string sn = snapshot(u);
        unsigned* mask = (unsigned*)arena_alloc(A_OBJ, sizeof(unsigned), 4, P_RW); *mask = 0xdeadbeef;
        arena_alloc(A_OBJ, 16, 1, perm(0, RS_REDZONE));
        volatile int rc = 0;
        bool ok;
        if (op.entry == 0) ok = call(i, -1, -1, FaultPlan(), [&] { *mask = A::NormalizeSyntaxMaskRequired(u); });
        else ok = call(i, -1, -1, FaultPlan(), [&] { rc = A::NormalizeSyntaxMaskRequiredEx(u, mask); });
        unprotect(pr);
        if (!ok) { o.aborted = true; break; }
        if (snapshot(u) != sn) violate(V_CONST_ARG_CHANGED, "the URI passed to the mask-required query was modified", false);
        o.rc = rc; o.aux = (int)*mask; o.digest = "mask=" + std::to_string(*mask);
        event("op %d maskreq -> %u", i, *mask);
        break;
    }
    case OP_MKLIST: case OP_COMPOSE: case OP_COMPOSE_MALLOC: case OP_DISSECT: case OP_FREEQL:
        exec_query(i, op, o); break;
    case OP_ESCAPE: case OP_FILENAME: exec_misc(i, op, o); break;
    case OP_A_SELFTEST: {
        // uriTestMemoryManager on a manager of this history: whatever it requests must be returned, with the pointers it was given
        MgrInst& m = mgr_of(op.mgr);
        if (!m.table) break;
        o.skipped = false;
        UriMemoryManager* t = m.table; volatile int rc = 0;
        event("op %d self test of manager %d", i, op.mgr);
        if (!call(i, TAG_STR + 51, op.mgr, FaultPlan(), [&] { rc = uriTestMemoryManager(t); })) { o.aborted = true; break; }
        o.rc = rc;
        if (m.kind == MK_INCOMPLETE) { if (rc != URI_ERROR_MEMORY_MANAGER_INCOMPLETE || outs_tmp_reqs || outs_tmp_frees) violate(V_ALLOC_BEFORE_REJECT, "uriTestMemoryManager on an incomplete manager returned " + std::to_string(rc), false); o.digest = "rejected"; break; }
        if (rc != URI_SUCCESS) violate(V_WRONG_RC, "uriTestMemoryManager on a correct manager returned " + std::to_string(rc), false);
        { int live = heap_live_count(-1, TAG_STR + 51, -1); if (live) violate(V_LEAK_AFTER_RELEASE, "uriTestMemoryManager left " + std::to_string(live) + " block(s) allocated: " + heap_live_desc(-1, TAG_STR + 51, -1), false); }
        o.digest = "self test ok";
        break;
    }
    case OP_A_MALLOC: case OP_A_CALLOC: case OP_A_REALLOCARRAY: {
        // allocator probe through the manager table itself (exercises the emulation / decoration layer of a completed manager inside
        // histories and concurrent worlds): one request, released at once if it was granted
        MgrInst& m = mgr_of(op.mgr);
        if (!m.table || m.kind == MK_INCOMPLETE) break;
        o.skipped = false;
        void* p = nullptr; UriMemoryManager* t = m.table; size_t n1 = (size_t)op.n1, n2 = (size_t)op.n2; int kind = op.kind;
        event("op %d allocator probe %s(%zu, %zu) mgr=%d", i, opkind_name(kind), n1, n2, op.mgr);
        bool ok = call(i, TAG_STR + 50, op.mgr, FaultPlan(), [&] { p = kind == OP_A_MALLOC ? t->malloc(t, n1) : kind == OP_A_CALLOC ? t->calloc(t, n1, n2) : t->reallocarray(t, nullptr, n1, n2); });
        int e = errno;
        if (!ok) { o.aborted = true; break; }
        if (p) { if (!call(i, TAG_STR + 50, op.mgr, FaultPlan(), [&] { t->free(t, p); })) { o.aborted = true; break; } o.digest = "granted"; }
        else o.digest = "NULL errno=" + std::to_string(e);
        break;
    }
    default: break;
    }
    if (g.abort_run) o.aborted = true;
    if (!o.skipped && !o.aborted) verify_texts("after the operation");
    if (!o.skipped && !o.aborted) {
        if (op.lose && loss_enabled && op.a >= 0 && op.a < N_USLOTS && us[op.a].state == S_VALID) lose_sources(op.a);
        if (after_op && g.violations.size() == nviol) after_op(*this, i);
    }
}

// ------------------------------------------------------------------------------------------------ parse
template <class C> void Exec<C>::exec_parse(int i, const Op& op, OpOut& o) {
    int d = op.a;
    if (d < 0 || d >= N_USLOTS) return;
    o.skipped = false;
    if (!vacate(i, d)) { o.aborted = true; return; }
    BreakGuard bg(*this, op, op.mgr);
    MgrInst& m = mgr_of(op.mgr);
    int entry = op.entry < 0 ? 0 : op.entry % 6;
    if (m.kind != MK_LIBC) entry = 5;
    // a NUL inside the range is legal input for the ranged entry points only: the NUL-terminated ones would see a shorter text
    if (op.text.find('\0') != std::string::npos && (entry == 1 || entry == 2 || entry == 4)) entry = entry == 1 ? 0 : 3;
    bool need_nul = entry == 1 || entry == 2 || entry == 4;
    USlot& sl = us[d];

    for (int attempt = 0; attempt < 2; attempt++) {
        FaultPlan fp = attempt == 0 ? fault_of(op) : FaultPlan();
        int tid; const C* first; const C* afterLast;
        if (op.c >= 0 && op.c < i && op_tid[(size_t)op.c] >= 0 && texts[(size_t)op_tid[(size_t)op.c]].alive && !need_nul) {
            // parse a prefix range of the very buffer an earlier parse used (same first pointer, own afterLast)
            tid = op_tid[(size_t)op.c];
            first = texts[(size_t)tid].base;
            int w = (op.window < 0 || op.window > texts[(size_t)tid].win) ? texts[(size_t)tid].win : op.window;
            afterLast = first + w;
            // (placement 4: the range starts `trail` characters into the shared buffer - two URIs over overlapping, not nested-from-the-start, ranges)
            if (op.placement == 4 && op.trail > 0 && op.trail <= w) first += op.trail;
        } else {
            tid = make_text(op.text, op.window, op.placement, op.trail, need_nul);
            first = texts[(size_t)tid].base; afterLast = first + texts[(size_t)tid].win;
        }
        op_tid[(size_t)i] = tid;
        event("op %d parse u%d \"%s\" entry=%d mgr=%d win=%d place=%d share=%d", i, d, hexesc(op.text).c_str(), entry, op.mgr, (int)(afterLast - first), op.placement, op.c);
        typename A::State st; memset(&st, 0x5a, sizeof st); st.uri = sl.u;
        const C* errPos = (const C*)(uintptr_t)0x1111;
        const C** epp = (op.opt & 1) ? nullptr : &errPos;   // the error position out-parameter is optional
        volatile int rc = -999;
        Uri* u = sl.u;
        bool ok = call(i, d, op.mgr, fp, [&] {
            switch (entry) {
            case 0: rc = A::ParseUriEx(&st, first, afterLast); break;
            case 1: rc = A::ParseUri(&st, first); break;
            case 2: rc = A::ParseSingleUri(u, first, epp); break;
            case 3: rc = A::ParseSingleUriEx(u, first, afterLast, epp); break;
            case 4: rc = A::ParseSingleUriEx(u, first, nullptr, epp); break;
            default: rc = A::ParseSingleUriExMm(u, first, afterLast, epp, m.table); break;
            }
        });
        o.reqs = attempt == 0 ? outs_tmp_reqs : o.reqs; o.frees = outs_tmp_frees;
        if (attempt == 0) o.fired = outs_tmp_fired;
        const int fired = outs_tmp_fired;
        if (!ok) { o.aborted = true; return; }
        o.rc = rc; o.eff_opt = entry;
        if (m.kind == MK_INCOMPLETE) {
            if (rc != URI_ERROR_MEMORY_MANAGER_INCOMPLETE) violate(V_ALLOC_BEFORE_REJECT, "parse with an incomplete manager returned " + std::to_string(rc), false);
            if (outs_tmp_reqs || outs_tmp_frees) violate(V_ALLOC_BEFORE_REJECT, "parse with an incomplete manager used the manager before rejecting it", false);
            o.digest = "rejected"; sl.state = S_EMPTY; return;
        }
        if (rc == URI_SUCCESS) {
            if (outs_tmp_fired) violate(V_WRONG_RC, "parse: an allocation request failed but the call returned success", false);
            sl.state = S_VALID; sl.mgr = op.mgr; sl.owned = false; sl.texts.clear(); sl.deps.clear(); sl.ever.clear(); sl.texts.insert(tid); sl.ever.insert(tid); sl.producer = i; sl.path_origin = sl.host_origin = OP_PARSE;
            UriView v = view(u);
            o.digest = v.str();
            // layout: every reported range inside the window (or an empty placeholder)
            std::string lay;
            auto chk = [&](const Range& r, const char* nm) {
                if (!r.first) { lay += "~,"; return; }
                bool inside = r.first >= first && r.afterLast <= afterLast && r.first <= r.afterLast;
                if (inside) { lay += std::to_string(r.first - first) + "-" + std::to_string(r.afterLast - first) + ","; return; }
                if (r.first == r.afterLast && !in_arena(r.first)) { lay += "E,"; return; }
                lay += "OUTSIDE,";
                violate(V_RESULT_DIFFERS, std::string("parse succeeded but the reported ") + nm + " range does not lie inside the input range", false);
            };
            chk(u->scheme, "scheme"); chk(u->userInfo, "userInfo"); chk(u->hostText, "hostText"); chk(u->hostData.ipFuture, "ipFuture");
            chk(u->portText, "portText"); chk(u->query, "query"); chk(u->fragment, "fragment");
            int n = 0; for (const Seg* s = u->pathHead; s && n < 100000; s = s->next, n++) chk(s->text, "segment");
            o.note = lay;
            if (u->owner) violate(V_RESULT_DIFFERS, "parse produced a URI that claims ownership", false);
            event("op %d parse -> ok %s", i, o.digest.c_str());
            return;
        }
        // failure
        const C* ep = entry <= 1 ? st.errorPos : errPos;
        o.aux = -1;
        if (rc == URI_ERROR_SYNTAX) {
            if (entry >= 2 && !epp) o.aux = -3; else if (ep && ep >= first && ep <= afterLast) o.aux = (int)(ep - first); else o.aux = -2;
        }
        o.digest = "error " + std::to_string(rc) + " at " + std::to_string(o.aux);
        event("op %d parse -> rc=%d errpos=%d fired=%d", i, (int)rc, o.aux, outs_tmp_fired);
        if (outs_tmp_fired && rc != URI_ERROR_MALLOC) violate(V_WRONG_RC, "parse: an allocation request failed but the call returned " + std::to_string(rc) + " instead of the out-of-memory code", false);
        if (!outs_tmp_fired && rc == URI_ERROR_MALLOC) violate(V_WRONG_RC, "parse returned the out-of-memory code although no allocation request failed", false);
        {
            int live = heap_live_count(-1, -1, i);
            if (live) violate(V_LEAK_AFTER_FAILURE, "after a failed parse (rc " + std::to_string(rc) + ") " + std::to_string(live) + " block(s) remain allocated: " + heap_live_desc(-1, -1, i), false);
        }
        sl.state = S_FAILED; sl.mgr = op.mgr; sl.owned = false; sl.texts.clear(); sl.deps.clear();
        // the output structure may be passed to the free function, even repeatedly
        int refree = op.refree + (fired ? 1 : 0);
        if (refree > 0) {
            unsigned long long f0 = g.cur->released_total;   // per task: other tasks release their own blocks meanwhile
            if (!free_slot(i, d, 1, refree)) { o.aborted = true; return; }
            if (g.cur->released_total != f0) violate(V_DOUBLE_FREE, "freeing the output structure of a failed parse released something", false);
        }
        if (!(attempt == 0 && fired)) return;
        // bounded recovery: same call again, faults off
    }
}

// ------------------------------------------------------------------------------------------------ resolve / relativize
template <class C> void Exec<C>::exec_resolve(int i, const Op& op, OpOut& o, bool add) {
    int d = op.a, r = op.b, b = op.c;
    if (d < 0 || d >= N_USLOTS || !uri_ok(r) || !uri_ok(b) || d == r || d == b) return;
    o.skipped = false;
    if (!vacate(i, d)) { o.aborted = true; return; }
    if (!uri_ok(r) || !uri_ok(b)) { o.skipped = true; return; }   // vacating d made an operand stale
    BreakGuard bg(*this, op, op.mgr);
    MgrInst& m = mgr_of(op.mgr);
    int entry = op.entry < 0 ? 0 : op.entry % (add ? 3 : 2);
    if (m.kind != MK_LIBC) entry = add ? 2 : 1;
    int opt = add ? (entry == 0 ? 0 : (op.opt & 1)) : (op.opt > 1 || op.opt < 0 ? op.opt : (op.opt & 1));   // reference creation: UriBool is an int, callers pass any truthy value
    USlot& sl = us[d];
    Uri* du = sl.u; const Uri* ru = us[r].u; const Uri* bu = us[b].u;
    for (int attempt = 0; attempt < 2; attempt++) {
        FaultPlan fp = attempt == 0 ? fault_of(op) : FaultPlan();
        event("op %d %s u%d <- (u%d, u%d) opt=%d entry=%d mgr=%d", i, add ? "addbase" : "removebase", d, r, b, opt, entry, op.mgr);
        Prot pr; protect(pr, ru); protect(pr, bu);
        std::string sr = snapshot(ru), sb = snapshot(bu);
        volatile int rc = -999;
        bool ok = call(i, d, op.mgr, fp, [&] {
            if (add) {
                if (entry == 0) rc = A::AddBaseUri(du, ru, bu);
                else if (entry == 1) rc = A::AddBaseUriEx(du, ru, bu, (UriResolutionOptions)opt);
                else rc = A::AddBaseUriExMm(du, ru, bu, (UriResolutionOptions)opt, m.table);
            } else {
                if (entry == 0) rc = A::RemoveBaseUri(du, ru, bu, (UriBool)opt);
                else rc = A::RemoveBaseUriMm(du, ru, bu, (UriBool)opt, m.table);
            }
        });
        unprotect(pr);
        if (attempt == 0) { o.reqs = outs_tmp_reqs; o.fired = outs_tmp_fired; }
        const int fired = outs_tmp_fired;
        if (!ok) { o.aborted = true; return; }
        o.rc = rc; o.eff_opt = opt;
        if (snapshot(ru) != sr || snapshot(bu) != sb) violate(V_CONST_ARG_CHANGED, std::string(add ? "resolution" : "reference creation") + " modified a read-only operand", false);
        if (m.kind == MK_INCOMPLETE) {
            if (rc != URI_ERROR_MEMORY_MANAGER_INCOMPLETE) violate(V_ALLOC_BEFORE_REJECT, "call with an incomplete manager returned " + std::to_string(rc), false);
            if (outs_tmp_reqs || outs_tmp_frees) violate(V_ALLOC_BEFORE_REJECT, "call with an incomplete manager used the manager before rejecting it", false);
            o.digest = "rejected"; sl.state = S_EMPTY; return;
        }
        if (rc == URI_SUCCESS) {
            if (outs_tmp_fired) violate(V_WRONG_RC, "an allocation request failed but the call returned success", false);
            sl.state = S_VALID; sl.mgr = op.mgr; sl.owned = false; sl.texts.clear(); sl.deps.clear(); sl.ever.clear(); sl.producer = i;
            sl.path_origin = sl.host_origin = op.kind;
            inherit(sl, us[r], r); inherit(sl, us[b], b);
            sl.survivor = us[r].survivor || us[b].survivor;   // derived from what a failed call left behind
            o.digest = view(du).str();
            if (du->owner) { sl.owned = true; sl.texts.clear(); sl.deps.clear(); }   // not today's behaviour, but nothing in the properties forbids a result that owns copies
            event("op %d -> ok %s", i, o.digest.c_str());
            return;
        }
        o.digest = "error " + std::to_string(rc);
        event("op %d -> rc=%d fired=%d", i, (int)rc, outs_tmp_fired);
        if (outs_tmp_fired && rc != URI_ERROR_MALLOC) violate(V_WRONG_RC, "an allocation request failed but the call returned " + std::to_string(rc) + " instead of the out-of-memory code", false);
        if (!outs_tmp_fired && rc == URI_ERROR_MALLOC) violate(V_WRONG_RC, "out-of-memory code although no allocation request failed", false);
        sl.state = S_FAILED; sl.mgr = op.mgr; sl.owned = false; sl.texts.clear(); sl.deps.clear();
        if (fired) after_failure_cleanup(i, d, true);
        else {
            int live = heap_live_count(-1, -1, i);
            if (live) violate(V_LEAK_AFTER_FAILURE, "after a failed call (rc " + std::to_string(rc) + ") " + std::to_string(live) + " block(s) remain allocated: " + heap_live_desc(-1, -1, i), false);
            if (op.refree && !free_slot(i, d, 1, op.refree)) { o.aborted = true; return; }
        }
        if (g.abort_run) { o.aborted = true; return; }
        if (!(attempt == 0 && fired)) return;
    }
}

// ------------------------------------------------------------------------------------------------ normalize / make owner
template <class C> void Exec<C>::exec_inplace(int i, const Op& op, OpOut& o, bool normalize) {
    int s = op.a;
    if (!uri_ok(s)) return;
    o.skipped = false;
    USlot& sl = us[s];
    int mi = mgr_of(op.mgr).kind == MK_INCOMPLETE ? op.mgr : sl.mgr;
    BreakGuard bg(*this, op, mi);
    bool reject = mgr_of(mi).kind == MK_INCOMPLETE;
    MgrInst& m = mgr_of(mi);
    int entry = op.entry < 0 ? 0 : op.entry % (normalize ? 3 : 2);
    if (m.kind != MK_LIBC) entry = normalize ? 2 : 1;
    unsigned mask = normalize ? (entry == 0 ? 63u : (op.opt > 63 ? (unsigned)op.opt : (unsigned)(op.opt & 63))) : 0;
    Uri* u = sl.u;
    UriView before = view(u);
    (void)0;
    event("op %d %s u%d mask=%u entry=%d mgr=%d owned=%d", i, normalize ? "normalize" : "makeowner", s, mask, entry, mi, (int)sl.owned);
    if (normalize && mask && sl.owned) mark_dependents_stale(s);
    FaultPlan fp = fault_of(op);
    volatile int rc = -999;
    bool ok = call(i, s, mi, fp, [&] {
        if (normalize) {
            if (entry == 0) rc = A::NormalizeSyntax(u);
            else if (entry == 1) rc = A::NormalizeSyntaxEx(u, mask);
            else rc = A::NormalizeSyntaxExMm(u, mask, m.table);
        } else {
            if (entry == 0) rc = A::MakeOwner(u);
            else rc = A::MakeOwnerMm(u, m.table);
        }
    });
    o.reqs = outs_tmp_reqs; o.fired = outs_tmp_fired;
    if (!ok) { o.aborted = true; return; }
    o.rc = rc; o.eff_opt = (int)mask;
    if (reject) {
        if (rc != URI_ERROR_MEMORY_MANAGER_INCOMPLETE) violate(V_ALLOC_BEFORE_REJECT, "call with an incomplete manager returned " + std::to_string(rc), false);
        if (outs_tmp_reqs || outs_tmp_frees) violate(V_ALLOC_BEFORE_REJECT, "call with an incomplete manager used the manager before rejecting it", false);
        o.digest = "rejected"; return;
    }
    if (rc == URI_SUCCESS) {
        if (outs_tmp_fired) violate(V_WRONG_RC, "an allocation request failed but the call returned success", false);
        UriView after = view(u);
        if (!normalize || mask) {
            if (!after.owner) violate(V_OWNER_CHANGED, std::string(normalize ? "normalization with a non-zero mask" : "make-owner") + " succeeded but the URI does not own its memory", false);
            sl.owned = true; sl.texts.clear(); sl.deps.clear();
        }
        if (!normalize) {
            if (after.str(false) != before.str(false)) violate(V_OWNER_CHANGED, "make-owner changed the content: before {" + before.str(false) + "} after {" + after.str(false) + "}", false);
        }
        if (normalize && mask == 0 && after.owner && !sl.owned) { sl.owned = true; sl.texts.clear(); sl.deps.clear(); }   // (the statement is silent about mask 0)
        o.digest = after.str();
        sl.producer = i;
        if (normalize && (mask & URI_NORMALIZE_PATH)) sl.path_origin = OP_NORMALIZE;
        if (normalize && (mask & URI_NORMALIZE_HOST)) sl.host_origin = OP_NORMALIZE;
        event("op %d -> ok %s", i, o.digest.c_str());
        return;
    }
    o.digest = "error " + std::to_string(rc);
    event("op %d -> rc=%d fired=%d", i, (int)rc, outs_tmp_fired);
    if (outs_tmp_fired && rc != URI_ERROR_MALLOC) violate(V_WRONG_RC, "an allocation request failed but the call returned " + std::to_string(rc) + " instead of the out-of-memory code", false);
    if (!outs_tmp_fired) violate(V_WRONG_RC, std::string(normalize ? "normalize" : "make-owner") + " failed with " + std::to_string(rc) + " although no allocation request failed", false);
    mark_dependents_stale(s);
    if (op.keep && outs_tmp_fired) {
        // the caller goes on using the object the failed call left behind (it is still a URI the library produced)
        UriView after = view(u);
        if (after.owner && !sl.owned) { sl.owned = true; sl.texts.clear(); sl.deps.clear(); }
        sl.survivor = true;
        o.digest += " kept {" + after.str() + "}";
        event("op %d -> object kept in use: %s", i, after.str().c_str());
        return;
    }
    after_failure_cleanup(i, s, false);
}

// ------------------------------------------------------------------------------------------------ to string
template <class C> void Exec<C>::exec_tostring(int i, const Op& op, OpOut& o) {
    if (!uri_ok(op.a)) return;
    o.skipped = false;
    const Uri* u = us[op.a].u;
    std::string snap = snapshot(u);
    event("op %d tostring u%d cap=%d", i, op.a, op.cap);
    int rc = 0, req = -1;
    std::string text;
    if (op.cap == CAP_AMPLE) {
        if (!to_text(i, u, &text, &rc, &req)) { o.aborted = true; return; }
        o.rc = rc; o.aux = req; o.digest = text;
    } else {
        // One time in four the length is learned from a write with ample room instead of the measuring call, so that no measuring call
        // lies between whatever changed the object and the writes that follow (what the writer does must not depend on an earlier
        // measuring call); the measuring call is then made last and must agree.
        bool measure_last = false;
        if (op.cap == CAP_ALL && ((plan.run_seed >> 19) + (unsigned)i) % 4 == 0) {
            std::string t0; int r0 = 0, l0 = -1;
            if (!tostring_cap(i, u, 8192, true, -1, &t0, &r0, &l0)) { o.aborted = true; return; }
            if (r0 == URI_SUCCESS && l0 >= 0) { req = l0; rc = URI_SUCCESS; measure_last = true; text = t0; }
        }
        if (!measure_last && !chars_required(i, u, &req, &rc)) { o.aborted = true; return; }
        o.rc = rc; o.aux = req;
        if (rc != URI_SUCCESS) { violate(V_SIZE_CONTRACT, "chars-required failed with " + std::to_string(rc) + " on a valid URI", false); return; }
        if (req < 0 || req > (1 << 22)) { violate(V_SIZE_CONTRACT, "chars-required returned " + std::to_string(req), false); return; }
        if (op.cap == CAP_ALL) {
            int n = 0;
            // every capacity; for long texts (rare) both ends and 64 seeded capacities in between
            std::vector<int> caps;
            if (req <= 256) { for (int cap = -2; cap <= req + 3; cap++) caps.push_back(cap); if ((plan.run_seed >> 11) % 8 == 0) { caps.push_back(0x7fffffff); caps.push_back(1 << 29); caps.push_back((1 << 30) + 7); caps.push_back(65536); caps.push_back(-0x7fffffff - 1); caps.push_back(-1000); } }
            else {
                std::set<int> cs; Rng cr(plan.run_seed ^ (unsigned long long)(i * 7919 + 13));
                for (int k = -2; k <= 10; k++) cs.insert(k);
                for (int k = req - 10; k <= req + 3; k++) cs.insert(k);
                for (int k = 0; k < 64; k++) cs.insert(cr.range(0, req));
                caps.assign(cs.begin(), cs.end());
            }
            for (int cap : caps)
                for (int w = 0; w < 2 && !g.abort_run; w++) {
                    std::string t; int r2 = 0;
                    if (!tostring_cap(i, u, cap, w != 0, req, &t, &r2)) { o.aborted = true; o.note = "cap=" + std::to_string(cap) + " written=" + std::to_string(w); return; }
                    if (!g.violations.empty() && o.note.empty()) o.note = "cap=" + std::to_string(cap) + " written=" + std::to_string(w);
                    if (r2 == URI_SUCCESS) { if (text.empty()) text = t; else if (t != text) violate(V_SIZE_CONTRACT, "text differs between capacities", false); }
                    n++;
                }
            o.digest = text; o.reqs = n;
            if (measure_last && !g.abort_run) {
                int req2 = -1, rc2 = 0;
                if (!chars_required(i, u, &req2, &rc2)) { o.aborted = true; return; }
                if (rc2 != URI_SUCCESS || req2 != req) violate(V_SIZE_CONTRACT, "chars-required says " + std::to_string(req2) + " (rc " + std::to_string(rc2) + ") but the text written with ample room has " + std::to_string(req) + " characters", false);
            }
        } else {
            if (!tostring_cap(i, u, op.cap, (op.opt & 1) != 0, req, &text, &rc)) { o.aborted = true; return; }
            o.rc = rc; o.digest = text;
        }
    }
    if (snapshot(u) != snap) violate(V_CONST_ARG_CHANGED, "recomposition modified the URI", false);
    event("op %d -> rc=%d \"%s\"", i, o.rc, hexesc(o.digest).c_str());
}

// ------------------------------------------------------------------------------------------------ string helpers (escape, filename, IPv4)
// These have no allocator, capacity argument or shared input: they run under the monitor for C20 (no static state, no race) only.
template <class C> void Exec<C>::exec_misc(int i, const Op& op, OpOut& o) {
    std::string in = op.text;
    for (auto& ch : in) if (ch == 0) ch = 'x';
    o.skipped = false;
    int mode = op.kind == OP_FILENAME ? 1 + (op.opt & 1) : ((op.opt & 3) == 3 ? 3 : 0);
    // placement 3: the exact range at the very end of readable memory, no terminator (ranged entry points only)
    const bool ranged_only = op.placement == 3 && (mode == 3 || (mode == 0 && (op.entry & 1)));
    const C* src = ranged_only ? texts[(size_t)make_text(in, -1, 0, 0, false)].base : put_str(in, A_TEXT);
    size_t n = in.size();
    auto out_buf = [&](size_t chars) -> C* { return guarded_buf(chars).buf; };
    auto zlen = [&](const C* b, size_t maxc) { size_t l = 0; while (l < maxc && b[l] != 0) l++; return l; };
    event("op %d %s mode=%d \"%s\"", i, opkind_name(op.kind), mode, hexesc(in).c_str());
    if (mode == 0) {
        UriBool sp = (op.opt & 4) ? URI_TRUE : URI_FALSE, nb = (op.opt & 8) ? URI_TRUE : URI_FALSE;
        size_t cap = (nb ? 6 : 3) * n + 1;
        C* out = out_buf(cap);
        C* end = nullptr;
        bool ok = call(i, -1, -1, FaultPlan(), [&] { end = op.entry & 1 ? A::EscapeEx(src, src + n, out, sp, nb) : A::Escape(src, out, sp, nb); });
        if (!ok) { o.aborted = true; return; }
        size_t l = zlen(out, cap);
        std::string esc = narrow(out, out + l);
        if (end != out + l) violate(V_RESULT_DIFFERS, "escape: returned pointer is not the terminator", false);
        const C* uend = nullptr;
        int br = (op.opt >> 4) & 3;
        ok = call(i, -1, -1, FaultPlan(), [&] { uend = (op.entry & 2) ? A::UnescapeInPlace(out) : A::UnescapeInPlaceEx(out, sp, (UriBreakConversion)br); });
        if (!ok) { o.aborted = true; return; }
        size_t l2 = zlen(out, cap);
        o.digest = esc + "|" + narrow(out, out + l2);
        (void)uend;
    } else if (mode == 1 || mode == 2) {
        bool unix_ = mode == 1;
        size_t cap = (unix_ ? 7 : 8) + 3 * n + 1;
        C* uri = out_buf(cap);
        volatile int rc = 0;
        bool ok = call(i, -1, -1, FaultPlan(), [&] { rc = unix_ ? A::UnixFilenameToUriString(src, uri) : A::WindowsFilenameToUriString(src, uri); });
        if (!ok) { o.aborted = true; return; }
        size_t l = zlen(uri, cap);
        std::string u = narrow(uri, uri + l);
        set_perm(uri, cap * sizeof(C), perm(P_R, RS_CONST_ARG));
        C* back = out_buf(l + 1 + 2);
        ok = call(i, -1, -1, FaultPlan(), [&] { rc = unix_ ? A::UriStringToUnixFilename(uri, back) : A::UriStringToWindowsFilename(uri, back); });
        if (!ok) { o.aborted = true; return; }
        o.rc = rc; o.digest = u + "|" + narrow(back, back + zlen(back, l + 3));
    } else {
        unsigned char* oct = (unsigned char*)arena_alloc(A_OBJ, 4, 4, P_RW);
        arena_alloc(A_OBJ, 16, 1, perm(0, RS_REDZONE));
        memset(oct, 0xEE, 4);
        volatile int rc = 0;
        bool ok = call(i, -1, -1, FaultPlan(), [&] { rc = A::ParseIpFourAddress(oct, src, src + n); });
        if (!ok) { o.aborted = true; return; }
        char b[64]; snprintf(b, sizeof b, "rc=%d %u.%u.%u.%u", (int)rc, oct[0], oct[1], oct[2], oct[3]);
        o.rc = rc; o.digest = rc == 0 ? b : "rc=" + std::to_string(rc);
    }
    event("op %d -> %s", i, hexesc(o.digest).c_str());
}

// ------------------------------------------------------------------------------------------------ query ops
template <class C> void Exec<C>::exec_query(int i, const Op& op, OpOut& o) {
    int s = op.a;
    if (s < 0 || s >= N_QSLOTS) return;
    QSlot& q = qs[s];
    auto release = [&](QSlot& x, int xs) -> bool {
        if (x.state == S_VALID && !x.harness_built && x.head) {
            MgrInst& m = mgr_of(x.mgr); QL* h = x.head; x.head = nullptr;
            volatile int rc = 0;
            if (!call(i, TAG_Q + xs, x.mgr, FaultPlan(), [&] { if (m.kind == MK_LIBC) A::FreeQueryList(h); else rc = A::FreeQueryListMm(h, m.table); })) return false;
            if (rc != URI_SUCCESS) violate(V_WRONG_RC, "uriFreeQueryListMm returned " + std::to_string(rc), false);
            int live = heap_live_count(-1, TAG_Q + xs, -1);
            if (live) violate(V_LEAK_AFTER_RELEASE, "after freeing query list q" + std::to_string(xs) + " " + std::to_string(live) + " block(s) are still outstanding: " + heap_live_desc(-1, TAG_Q + xs, -1), false);
        }
        x.head = nullptr; x.state = S_EMPTY; x.items.clear(); x.harness_built = false; x.count = 0;
        return true;
    };
    auto release_str = [&](QSlot& x, int xs) -> bool {
        if (!x.str_ptr) return true;
        MgrInst& m = mgr_of(x.str_mgr); C* p = x.str_ptr; x.str_ptr = nullptr;
        bool ok = call(i, TAG_STR + xs, x.str_mgr, FaultPlan(), [&] { if (m.kind == MK_LIBC) sim_free_public(p); else m.table->free(m.table, p); });
        if (!ok) return false;
        int live = heap_live_count(-1, TAG_STR + xs, -1);
        if (live) violate(V_LEAK_AFTER_RELEASE, "after freeing the composed string " + std::to_string(live) + " block(s) are still outstanding", false);
        return true;
    };

    switch (op.kind) {
    case OP_MKLIST: {
        o.skipped = false;
        if (!release(q, s)) { o.aborted = true; return; }
        size_t n = op.keys.size();
        QL* nodes = n ? (QL*)arena_alloc(A_OBJ, n * sizeof(QL), 16, P_RW) : nullptr;
        arena_alloc(A_OBJ, 32, 1, perm(0, RS_REDZONE));
        q.items.clear();
        for (size_t k = 0; k < n; k++) {
            nodes[k].key = put_str(op.keys[k], A_TEXT);
            nodes[k].value = op.has_value[k] ? put_str(op.values[k], A_TEXT) : nullptr;
            nodes[k].next = k + 1 < n ? &nodes[k + 1] : nullptr;
            QItem it; it.key = op.keys[k]; it.has_value = op.has_value[k] != 0; it.value = op.values[k]; q.items.push_back(it);
        }
        if (n) set_perm(nodes, n * sizeof(QL), perm(P_R, RS_CONST_ARG));
        q.head = nodes; q.state = S_VALID; q.harness_built = true; q.count = (int)n; q.mgr = 0;
        o.digest = qitems_str(q.items);
        event("op %d mklist q%d %s", i, s, o.digest.c_str());
        return;
    }
    case OP_FREEQL: {
        if (q.state != S_VALID) return;
        o.skipped = false;
        event("op %d freeql q%d", i, s);
        if (mgr_of(op.mgr).kind == MK_INCOMPLETE && !q.harness_built && q.head) {
            // the release call itself must reject an incomplete manager before touching anything
            MgrInst& im = mgr_of(op.mgr); QL* h = q.head; std::string before = snapshot_list(h); volatile int rc = 0;
            if (!call(i, TAG_Q + s, op.mgr, FaultPlan(), [&] { rc = A::FreeQueryListMm(h, im.table); })) { o.aborted = true; return; }
            if (rc != URI_ERROR_MEMORY_MANAGER_INCOMPLETE) violate(V_ALLOC_BEFORE_REJECT, "uriFreeQueryListMm with an incomplete manager returned " + std::to_string(rc), false);
            if (outs_tmp_reqs || outs_tmp_frees) violate(V_ALLOC_BEFORE_REJECT, "uriFreeQueryListMm with an incomplete manager used the manager before rejecting it", false);
            (void)before;
            o.digest = "rejected";
            return;
        }
        if (!release(q, s) || !release_str(q, s)) { o.aborted = true; return; }
        o.digest = "freed";
        return;
    }
    case OP_COMPOSE: case OP_COMPOSE_MALLOC: {
        if (q.state != S_VALID || !q.head) return;
        o.skipped = false;
        bool mal = op.kind == OP_COMPOSE_MALLOC;
        MgrInst& m = mgr_of(op.mgr);
        int entry = op.entry < 0 ? 0 : op.entry % (mal ? 3 : 2);
        if (mal && m.kind != MK_LIBC) entry = 2;
        int eff = entry == 0 ? 3 : (op.opt & 3);
        UriBool sp = (eff & 1) ? URI_TRUE : URI_FALSE, nb = (eff & 2) ? URI_TRUE : URI_FALSE;
        o.eff_opt = eff; q.eff_compose_opt = eff;
        const QL* head = q.head;
        Prot pr; protect_list(pr, head);
        std::string snap = snapshot_list(head);
        event("op %d %s q%d eff=%d entry=%d cap=%d", i, mal ? "compose_malloc" : "compose", s, eff, entry, op.cap);
        // chars required
        int* req = (int*)arena_alloc(A_OBJ, sizeof(int), 4, P_RW); *req = -4242; arena_alloc(A_OBJ, 16, 1, perm(0, RS_REDZONE));
        volatile int rc = -999;
        bool ok = call(i, -1, -1, FaultPlan(), [&] { rc = entry == 0 ? A::ComposeQueryCharsRequired(head, req) : A::ComposeQueryCharsRequiredEx(head, req, sp, nb); });
        if (!ok) { unprotect(pr); o.aborted = true; return; }
        if (rc != URI_SUCCESS) { unprotect(pr); o.rc = rc; o.digest = "error " + std::to_string(rc); violate(V_SIZE_CONTRACT, "compose chars-required failed with " + std::to_string(rc) + " on a small list", false); return; }
        int required = *req; o.aux = required;
        if (required < 0 || required > (1 << 24)) { unprotect(pr); violate(V_SIZE_CONTRACT, "compose chars-required returned " + std::to_string(required), false); return; }
        std::string text; bool have_text = false;
        char buf[256];
        if (!mal) {
            int lo = op.cap == CAP_ALL ? -1 : (op.cap == CAP_AMPLE ? required + 1 : op.cap);
            int hi = op.cap == CAP_ALL ? required + 2 : lo;
            // true length is only known after a successful compose; do the ample one first
            std::vector<int> caps; caps.push_back(required + 1);
            if (hi - lo <= 260) { for (int c = lo; c <= hi; c++) if (c != required + 1) caps.push_back(c); if (op.cap == CAP_ALL && (plan.run_seed >> 11) % 8 == 0) { caps.push_back(0x7fffffff); caps.push_back(1 << 29); caps.push_back(65536); } }
            else {   // long list (rare): both ends and 64 seeded capacities in between
                std::set<int> cs; Rng cr(plan.run_seed ^ (unsigned long long)(i * 7919 + 17));
                for (int k = lo; k <= lo + 10; k++) cs.insert(k);
                for (int k = hi - 12; k <= hi; k++) cs.insert(k);
                for (int k = 0; k < 64; k++) cs.insert(cr.range(lo, hi));
                for (int c : cs) if (c != required + 1) caps.push_back(c);
            }
            int truelen = -1, ncalls = 0;
            for (int cap : caps) {
                for (int w = 0; w < (op.cap == CAP_ALL ? 2 : 1) && !g.abort_run; w++) {
                    bool with_written = op.cap == CAP_ALL ? w != 0 : true;
                    int alloc_chars = cap > 0 ? cap : 0;
                    if (cap > required + 4096) alloc_chars = required + 8;   // "no limit" stated, the buffer really holds what is needed
                    Guarded gb = guarded_buf((size_t)alloc_chars);
                    C* dest = gb.buf;
                    int* written = nullptr;
                    if (with_written) { written = (int*)arena_alloc(A_OBJ, sizeof(int), 4, P_RW); *written = -777; arena_alloc(A_OBJ, 16, 1, perm(0, RS_REDZONE)); }
                    rc = -999;
                    ok = call(i, -1, -1, FaultPlan(), [&] { rc = entry == 0 ? A::ComposeQuery(dest, head, cap, written) : A::ComposeQueryEx(dest, head, cap, written, sp, nb); });
                    ncalls++;
                    if (!ok) { unprotect(pr); o.aborted = true; o.note = "cap=" + std::to_string(cap); return; }
                    guards_intact(gb, "uriComposeQuery");
                    if (rc == URI_SUCCESS) {
                        int len = 0; while (len < alloc_chars && dest[len] != 0) len++;
                        if (len >= alloc_chars) { snprintf(buf, sizeof buf, "compose with capacity %d reported success but left no terminator inside the buffer", cap); violate(V_SIZE_CONTRACT, buf, false); }
                        std::string t = narrow(dest, dest + len);
                        if (!have_text) { text = t; have_text = true; truelen = len; }
                        else if (t != text) violate(V_SIZE_CONTRACT, "composed text differs between capacities", false);
                        if (written && *written != len + 1) { snprintf(buf, sizeof buf, "compose: charsWritten=%d but text length+1=%d (capacity %d)", *written, len + 1, cap); violate(V_SIZE_CONTRACT, buf, false); }
                        if (len > required) { snprintf(buf, sizeof buf, "composed text length %d exceeds chars-required %d", len, required); violate(V_SIZE_CONTRACT, buf, false); }
                    } else {
                        if (rc != URI_ERROR_OUTPUT_TOO_LARGE) { snprintf(buf, sizeof buf, "compose with capacity %d returned %d", cap, (int)rc); violate(V_SIZE_CONTRACT, buf, false); }
                        if (cap >= required + 1) { snprintf(buf, sizeof buf, "capacity %d >= chars-required %d + 1 but compose failed with %d", cap, required, (int)rc); violate(V_SIZE_CONTRACT, buf, false); }
                    }
                    if (!g.violations.empty() && o.note.empty()) o.note = "cap=" + std::to_string(cap);
                }
            }
            (void)truelen;
            o.rc = have_text ? 0 : (int)rc; o.reqs = ncalls;
        } else {
            if (!release_str(q, s)) { unprotect(pr); o.aborted = true; return; }
            BreakGuard bg(*this, op, op.mgr);
            C** out = (C**)arena_alloc(A_OBJ, sizeof(C*), 8, P_RW); *out = (C*)(uintptr_t)0x2222; arena_alloc(A_OBJ, 16, 1, perm(0, RS_REDZONE));
            for (int attempt = 0; attempt < 2; attempt++) {
                FaultPlan fp = attempt == 0 ? fault_of(op) : FaultPlan();
                rc = -999;
                ok = call(i, TAG_STR + s, op.mgr, fp, [&] {
                    if (entry == 0) rc = A::ComposeQueryMalloc(out, head);
                    else if (entry == 1) rc = A::ComposeQueryMallocEx(out, head, sp, nb);
                    else rc = A::ComposeQueryMallocExMm(out, head, sp, nb, m.table);
                });
                if (attempt == 0) { o.reqs = outs_tmp_reqs; o.fired = outs_tmp_fired; }
                if (!ok) { unprotect(pr); o.aborted = true; return; }
                o.rc = rc;
                if (m.kind == MK_INCOMPLETE) {
                    if (rc != URI_ERROR_MEMORY_MANAGER_INCOMPLETE) violate(V_ALLOC_BEFORE_REJECT, "compose-malloc with an incomplete manager returned " + std::to_string(rc), false);
                    if (outs_tmp_reqs || outs_tmp_frees) violate(V_ALLOC_BEFORE_REJECT, "compose-malloc with an incomplete manager used the manager before rejecting it", false);
                    unprotect(pr); o.digest = "rejected"; return;
                }
                if (rc == URI_SUCCESS) {
                    if (outs_tmp_fired) violate(V_WRONG_RC, "an allocation request failed but compose-malloc returned success", false);
                    C* p = *out;
                    size_t usable = heap_usable(p);
                    if (!usable) { violate(V_RESULT_DIFFERS, "compose-malloc returned a pointer that is not inside a live block", false); break; }
                    int maxc = (int)(usable / sizeof(C)), len = 0;
                    while (len < maxc && p[len] != 0) len++;
                    if (len >= maxc) violate(V_SIZE_CONTRACT, "compose-malloc result is not terminated inside its block", false);
                    text = narrow(p, p + len); have_text = true;
                    if (len > required) violate(V_SIZE_CONTRACT, "compose-malloc text longer than chars-required", false);
                    q.str_ptr = p; q.str_mgr = op.mgr;
                    break;
                }
                event("op %d compose_malloc -> rc=%d fired=%d", i, (int)rc, outs_tmp_fired);
                if (outs_tmp_fired && rc != URI_ERROR_MALLOC) violate(V_WRONG_RC, "an allocation request failed but compose-malloc returned " + std::to_string(rc), false);
                if (!outs_tmp_fired) violate(V_WRONG_RC, "compose-malloc failed with " + std::to_string(rc) + " although nothing was injected", false);
                int live = heap_live_count(-1, -1, i);
                if (live) violate(V_LEAK_AFTER_FAILURE, "after failed compose-malloc " + std::to_string(live) + " block(s) requested during the call are still outstanding: " + heap_live_desc(-1, -1, i), false);
                if (!(attempt == 0 && outs_tmp_fired)) break;
            }
        }
        unprotect(pr);
        if (snapshot_list(head) != snap) violate(V_CONST_ARG_CHANGED, "composing modified the query list", false);
        if (have_text) { q.composed = text; q.has_composed = true; o.digest = text; }
        event("op %d -> rc=%d req=%d \"%s\"", i, o.rc, required, hexesc(text).c_str());
        return;
    }
    case OP_DISSECT: {
        std::string src = op.text;
        if (op.b >= 0) { if (op.b >= N_QSLOTS || !qs[op.b].has_composed) return; src = qs[op.b].composed; }
        o.skipped = false;
        if (!release(q, s)) { o.aborted = true; return; }
        BreakGuard bg(*this, op, op.mgr);
        MgrInst& m = mgr_of(op.mgr);
        int entry = op.entry < 0 ? 0 : op.entry % 3;
        if (m.kind != MK_LIBC) entry = 2;
        int eff = entry == 0 ? (1 | (URI_BR_DONT_TOUCH << 1)) : (op.opt & 7);
        if (((eff >> 1) & 3) > URI_BR_DONT_TOUCH) eff &= 1;
        UriBool plus = (eff & 1) ? URI_TRUE : URI_FALSE; UriBreakConversion br = (UriBreakConversion)((eff >> 1) & 3);
        o.eff_opt = eff;
        for (int attempt = 0; attempt < 2; attempt++) {
            FaultPlan fp = attempt == 0 ? fault_of(op) : FaultPlan();
            int tid = make_text(src, op.window, op.placement, op.trail, false);
            const C* first = texts[(size_t)tid].base; const C* afterLast = first + texts[(size_t)tid].win;
            QL** out = (QL**)arena_alloc(A_OBJ, sizeof(QL*), 8, P_RW); *out = (QL*)(uintptr_t)0x3333;
            int* cnt = (op.opt & 8) ? nullptr : (int*)arena_alloc(A_OBJ, sizeof(int), 4, P_RW);
            if (cnt) *cnt = -555;
            arena_alloc(A_OBJ, 16, 1, perm(0, RS_REDZONE));
            event("op %d dissect q%d \"%s\" eff=%d entry=%d mgr=%d", i, s, hexesc(src).c_str(), eff, entry, op.mgr);
            volatile int rc = -999;
            bool ok = call(i, TAG_Q + s, op.mgr, fp, [&] {
                if (entry == 0) rc = A::DissectQueryMalloc(out, cnt, first, afterLast);
                else if (entry == 1) rc = A::DissectQueryMallocEx(out, cnt, first, afterLast, plus, br);
                else rc = A::DissectQueryMallocExMm(out, cnt, first, afterLast, plus, br, m.table);
            });
            if (attempt == 0) { o.reqs = outs_tmp_reqs; o.fired = outs_tmp_fired; }
            if (!ok) { o.aborted = true; return; }
            o.rc = rc;
            if (m.kind == MK_INCOMPLETE) {
                if (rc != URI_ERROR_MEMORY_MANAGER_INCOMPLETE) violate(V_ALLOC_BEFORE_REJECT, "dissect with an incomplete manager returned " + std::to_string(rc), false);
                if (outs_tmp_reqs || outs_tmp_frees) violate(V_ALLOC_BEFORE_REJECT, "dissect with an incomplete manager used the manager before rejecting it", false);
                o.digest = "rejected"; return;
            }
            if (rc == URI_SUCCESS) {
                if (outs_tmp_fired) violate(V_WRONG_RC, "an allocation request failed but dissect returned success", false);
                q.head = *out; q.state = S_VALID; q.harness_built = false; q.mgr = op.mgr;
                q.items = read_list(q.head); q.count = cnt ? *cnt : (int)q.items.size();
                o.aux = q.count; o.digest = qitems_str(q.items);
                if (cnt && *cnt != (int)q.items.size()) violate(V_QUERY_ROUNDTRIP, "dissect reported item count " + std::to_string(*cnt) + " but the list has " + std::to_string(q.items.size()) + " items", false);
                event("op %d -> ok %s", i, o.digest.c_str());
                return;
            }
            event("op %d dissect -> rc=%d fired=%d", i, (int)rc, outs_tmp_fired);
            o.digest = "error " + std::to_string(rc);
            if (outs_tmp_fired && rc != URI_ERROR_MALLOC) violate(V_WRONG_RC, "an allocation request failed but dissect returned " + std::to_string(rc), false);
            if (!outs_tmp_fired) violate(V_WRONG_RC, "dissect failed with " + std::to_string(rc) + " although nothing was injected", false);
            int live = heap_live_count(-1, -1, i);
            if (live) violate(V_LEAK_AFTER_FAILURE, "after failed dissect " + std::to_string(live) + " block(s) requested during the call are still outstanding: " + heap_live_desc(-1, -1, i), false);
            if (!(attempt == 0 && outs_tmp_fired)) return;
        }
        return;
    }
    default: return;
    }
}

}  // namespace sim
