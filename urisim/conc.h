// C20: cooperative tasks under a seeded scheduler, race shadow, solo-vs-concurrent comparison.
#pragma once
#include <sys/mman.h>
#include <errno.h>

namespace sim {

struct Sched {
    enum { MAXT = 8, STACK = 1 << 20 };
    ucontext_t main_ctx, ctx[MAXT];
    CallCtx cc[MAXT];
    bool done[MAXT];
    int ntasks = 0, cur = 0;
    unsigned long long step = 0;
    Rng rng{0};
    int policy = 0, param = 0;
    std::vector<int> trace_in; size_t trace_pos = 0;
    std::vector<int> trace_out;   // preemptive switches only: (step, task) pairs; this is what a replay file carries
    std::vector<int> order;       // every control transfer, for counting distinct schedules
    std::vector<unsigned long long> change_points; size_t cp_pos = 0;
    std::set<unsigned long long> switch_points;
    std::function<void(int)> body;
    static char* stacks;
};
inline char* Sched::stacks = nullptr;
inline Sched* g_sched = nullptr;

inline int sched_next_runnable(Sched& S, int after) {
    for (int k = 1; k <= S.ntasks; k++) { int t = (after - 1 + k) % S.ntasks + 1; if (!S.done[t]) return t; }
    return -1;
}
inline int sched_random_other(Sched& S) {
    int cand[Sched::MAXT], n = 0;
    for (int t = 1; t <= S.ntasks; t++) if (!S.done[t] && t != S.cur) cand[n++] = t;
    if (!n) return -1;
    return cand[S.rng.below((uint32_t)n)];
}
inline void sched_switch(Sched& S, int to, int why) {
    int from = S.cur;
    S.trace_out.push_back((int)S.step); S.trace_out.push_back(to);
    S.order.push_back((int)S.step); S.order.push_back(to);
    S.switch_points.insert(((unsigned long long)(unsigned)why << 8) | ((unsigned)from << 4) | (unsigned)to);
    S.cc[from].saved_errno = errno;
    event("schedule: step %llu task %d -> task %d", S.step, from, to);
    S.cur = to; g.cur = &S.cc[to];
    swapcontext(&S.ctx[from], &S.ctx[to]);
    errno = S.cc[S.cur].saved_errno;
}
inline void sched_yield_hook(int why) {
    Sched& S = *g_sched;
    if (S.cur == 0) return;
    S.step++;
    int to = -1;
    if (!S.trace_in.empty()) {
        while (S.trace_pos + 1 < S.trace_in.size() && S.trace_in[S.trace_pos] < (int)S.step) S.trace_pos += 2;
        if (S.trace_pos + 1 < S.trace_in.size() && S.trace_in[S.trace_pos] == (int)S.step) { to = S.trace_in[S.trace_pos + 1]; S.trace_pos += 2; if (to < 1 || to > S.ntasks || S.done[to]) to = -1; }
    } else {
        switch (S.policy) {
        case 1: if (why == -1) to = sched_next_runnable(S, S.cur + 1 > S.ntasks ? 1 : S.cur + 1); break;
        case 2: if (S.cp_pos < S.change_points.size() && S.step >= S.change_points[S.cp_pos]) { S.cp_pos++; to = sched_random_other(S); } break;
        case 3: if ((int)S.rng.below(1024) < S.param) to = sched_random_other(S); break;
        default: break;
        }
    }
    if (to > 0 && to != S.cur && !S.done[to]) sched_switch(S, to, why);
}
inline void sched_task_main(int t) {
    Sched& S = *g_sched;
    poison_stack_deep(24 * 1024);   // what the previous world's task left on this stack
    S.body(t);
    S.done[t] = true;
    for (;;) {
        int nx = g.abort_run ? -1 : sched_next_runnable(S, t);
        if (nx < 0) { S.cur = 0; g.cur = &g.main_ctx; swapcontext(&S.ctx[t], &S.main_ctx); }
        else { S.order.push_back((int)S.step); S.order.push_back(nx); S.cur = nx; g.cur = &S.cc[nx]; swapcontext(&S.ctx[t], &S.ctx[nx]); }
    }
}
inline void sched_run(Sched& S) {
    if (!Sched::stacks) {
        Sched::stacks = (char*)mmap(nullptr, (size_t)Sched::MAXT * Sched::STACK, PROT_READ | PROT_WRITE, MAP_PRIVATE | MAP_ANONYMOUS | MAP_NORESERVE, -1, 0);
        for (int t = 0; t < Sched::MAXT; t++) mprotect(Sched::stacks + (size_t)t * Sched::STACK, 4096, PROT_NONE);
    }
    g_sched = &S;
    for (int t = 1; t <= S.ntasks; t++) {
        S.done[t] = false;
        S.cc[t] = CallCtx(); S.cc[t].task = t;
        char* lo = Sched::stacks + (size_t)t * Sched::STACK;
        S.cc[t].stack_lo = (uintptr_t)lo; S.cc[t].stack_hi = (uintptr_t)lo + Sched::STACK;
        getcontext(&S.ctx[t]);
        S.ctx[t].uc_stack.ss_sp = lo + 4096; S.ctx[t].uc_stack.ss_size = Sched::STACK - 4096; S.ctx[t].uc_link = nullptr;
        makecontext(&S.ctx[t], (void (*)())sched_task_main, 1, t);
    }
    // clear race shadow for everything allocated so far
    for (int i = 0; i < A_COUNT; i++) { size_t n = std::max(g_arena[i].hwm, g_arena[i].used); if (n) memset(g_arena[i].race, 0, n * 2); }
    g.conc = true; g.yield_hook = sched_yield_hook;
    S.cur = 1; g.cur = &S.cc[1]; S.step = 0;
    S.order.push_back(0); S.order.push_back(1);
    swapcontext(&S.main_ctx, &S.ctx[1]);
    g.yield_hook = nullptr; g.conc = false; g.cur = &g.main_ctx; S.cur = 0;
    g_sched = nullptr;
}

template <class C> struct ConcOut { RunOut<C> run; std::vector<int> trace, order; unsigned long long steps = 0; std::set<unsigned long long> switch_points; int switches = 0; };

template <class C> ConcOut<C> run_conc(const Plan& p, Stats& st, int policy, int param, unsigned long long seed, const std::vector<int>& trace, const std::vector<unsigned long long>& cps) {
    ConcOut<C> co;
    Exec<C> ex(p);
    ex.faults_enabled = true;    // allocation failures attached to task operations fire in the sequential and in the interleaved run alike
    ex.init();
    int n = (int)p.ops.size();
    int first_task_op = n, ntasks = 0;
    for (int i = 0; i < n; i++) if (p.ops[(size_t)i].task > 0) { if (i < first_task_op) first_task_op = i; ntasks = std::max(ntasks, p.ops[(size_t)i].task); }
    if (ntasks > Sched::MAXT - 1) ntasks = Sched::MAXT - 1;
    for (int i = 0; i < first_task_op && !g.abort_run; i++) ex.exec_op(i);
    static Sched S;
    if (ntasks > 0 && !g.abort_run) {
        S.ntasks = ntasks; S.policy = policy; S.param = param; S.rng = Rng(seed); S.trace_in = trace; S.trace_pos = 0; S.trace_out.clear(); S.order.clear();
        S.change_points = cps; S.cp_pos = 0; S.switch_points.clear();
        S.body = [&](int t) {
            for (int i = first_task_op; i < n && !g.abort_run; i++) if (p.ops[(size_t)i].task == t) ex.exec_op(i);
        };
        sched_run(S);
        co.trace = S.trace_out; co.order = S.order; co.steps = S.step; co.switch_points = S.switch_points; co.switches = (int)S.trace_out.size() / 2;
    }
    for (int i = first_task_op; i < n && !g.abort_run; i++) if (p.ops[(size_t)i].task == 0) ex.exec_op(i);
    ex.finish();
    RunOut<C>& r = co.run;
    r.outs = ex.outs; r.viol = g.violations; r.hash = g.ev_hash; r.events = g.ev_count; r.aborted = g.abort_run; r.hs = g.hs;
    for (auto& o : r.outs) if (!o.skipped) r.executed++;
    st.trials++; st.ops += (unsigned long long)r.executed; st.loads += g.loads; st.stores += g.stores; st.edges += g.edges; st.events += g.ev_count; st.evh = mix64(st.evh, g.ev_hash);
    return co;
}

template <class C> Verdict check_C20(const Plan& plan, Stats& st) {
    Verdict none;
    st.runs++;
    // reference: tasks run one after the other, no preemption
    ConcOut<C> ref = run_conc<C>(plan, st, 0, 0, 0, {}, {});
    Violation v;
    if (pick_violation("C20", ref.run.viol, st, &v)) { Plan q = plan; q.sched_policy = 0; q.sched_trace.clear(); return make_verdict(q, v, ref.run.hash); }
    if (ref.run.aborted) return none;
    std::vector<unsigned long long> cps;
    if (plan.sched_trace.empty() && plan.sched_policy == 2 && ref.steps > 2) {
        Rng r(plan.sched_seed ^ 0x9c7);
        int d = plan.sched_param < 1 ? 1 : plan.sched_param;
        for (int i = 0; i < d; i++) cps.push_back(1 + r.next() % ref.steps);
        std::sort(cps.begin(), cps.end());
    }
    if (plan.sched_policy == 0 && plan.sched_trace.empty()) return none;
    ConcOut<C> out = run_conc<C>(plan, st, plan.sched_policy, plan.sched_param, plan.sched_seed, plan.sched_trace, cps);
    if (out.switches == 0 && plan.sched_trace.empty() && ref.steps > 4 && out.run.viol.empty()) {
        // the drawn policy never preempted (no allocator call to switch at, a switch probability too small for so short a world): a
        // world without an interleaving tests nothing new, so it is run again with two seeded change points inside the tasks' steps
        Rng r2(plan.sched_seed ^ 0x2c7);
        std::vector<unsigned long long> cps2{1 + r2.next() % ref.steps, 1 + r2.next() % ref.steps};
        std::sort(cps2.begin(), cps2.end());
        out = run_conc<C>(plan, st, 2, 2, plan.sched_seed ^ 0x51, {}, cps2);
        st.probe("world_rerun_with_change_points");
    }
    st.fault("schedule.switch", (unsigned long long)out.switches);
    { unsigned long long f = 0; for (auto& o : out.run.outs) if (!o.skipped) f += (unsigned long long)o.fired; if (f) st.fault("alloc_fail.in_task", f); }
    for (size_t i = 0; i < plan.ops.size(); i++) {
        if (!plan.ops[i].task || out.run.outs[i].skipped) continue;
        int k = plan.ops[i].kind;
        if (k == OP_A_MALLOC || k == OP_A_CALLOC || k == OP_A_REALLOCARRAY) st.probe("allocator_probe_in_task");
        if (k == OP_ADDBASE || k == OP_REMOVEBASE) st.probe("task_op_on_shared_base");
        if (k == OP_COMPOSE) st.probe("task_op_on_shared_query_list");
    }
    if (!plan.mgrs.empty() && plan.mgrs[0] == MK_COMPLETED) st.probe("world_on_completed_manager");
    if (out.switches == 0) st.probe("world_without_preemption");
    st.fault(plan.sched_policy == 1 ? "schedule.rr_alloc" : plan.sched_policy == 2 ? "schedule.change_points" : plan.sched_policy == 3 ? "schedule.random_walk" : "schedule.replayed_trace");
    unsigned long long th = 1469598103934665603ull;
    for (int x : out.order) th = fnv1a(&x, sizeof x, th);
    st.schedules.insert(th);   // the interleaving itself: the sequence of (step, task) control transfers, whatever the world
    th = fnv1a(&plan.run_seed, sizeof plan.run_seed, th);
    for (auto sp : out.switch_points) st.switch_points.insert(sp);
    if (out.switches > 1) { st.nontrivial++; st.signatures.insert(th); }
    Plan q = plan; q.sched_trace = out.trace; q.sched_policy = 0;
    if (q.sched_trace.empty()) { q.sched_trace.push_back(0); q.sched_trace.push_back(1); }   // non-empty trace = replay mode
    if (pick_violation("C20", out.run.viol, st, &v)) return make_verdict(q, v, out.run.hash);
    if (out.run.aborted) return none;
    for (size_t i = 0; i < plan.ops.size(); i++) {
        const OpOut& a = ref.run.outs[i]; const OpOut& b = out.run.outs[i];
        if (a.skipped != b.skipped || a.rc != b.rc || a.digest != b.digest) {
            Violation nv; nv.kind = V_RESULT_DIFFERS; nv.op = (int)i;
            nv.detail = "op " + std::to_string(i) + " (" + opkind_name(plan.ops[i].kind) + ", task " + std::to_string(plan.ops[i].task) + ") returned rc=" + std::to_string(b.rc) + " {" + b.digest + "} under the interleaved schedule but rc=" + std::to_string(a.rc) + " {" + a.digest + "} when its task ran alone";
            std::vector<Violation> one{nv};
            if (pick_violation("C20", one, st, &v)) return make_verdict(q, v, out.run.hash);
        }
    }
    return none;
}

}  // namespace sim
