// World + plan executor, templated over the character type.
#pragma once
#include "rt.h"
#include "plan.h"
#include "api.h"
#include <functional>
#include <set>
#include <map>
#include <algorithm>
#include <errno.h>

namespace sim {

// ------------------------------------------------------------------------------------------------
struct OptStr {
    bool present = false; std::string s;
    bool operator==(const OptStr& o) const { return present == o.present && s == o.s; }
    bool operator!=(const OptStr& o) const { return !(*this == o); }
    std::string str() const { return present ? "\"" + hexesc(s) + "\"" : "~"; }
};

struct UriView {
    OptStr scheme, userInfo, hostText, port, query, fragment;
    int hostKind = 0;   // 0 none, 1 reg-name, 2 IPv4, 3 IPv6, 4 IPvFuture
    std::string ipBytes;
    bool absolutePath = false, owner = false, hasPath = false;
    std::vector<std::string> segs;
    std::string structErr;
    std::string str(bool with_owner = true) const {
        std::string o = "scheme=" + scheme.str() + " userinfo=" + userInfo.str() + " host=";
        static const char* kn[] = {"none", "regname", "ip4", "ip6", "ipfuture"};
        o += kn[hostKind]; o += ":" + hostText.str();
        if (!ipBytes.empty()) { o += ":"; for (unsigned char c : ipBytes) { char b[4]; snprintf(b, sizeof b, "%02x", c); o += b; } }
        o += " port=" + port.str() + " abs=" + (absolutePath ? "1" : "0") + " path=";
        if (!hasPath) o += "~"; else { o += "["; for (size_t i = 0; i < segs.size(); i++) { if (i) o += "|"; o += hexesc(segs[i]); } o += "]"; }
        o += " query=" + query.str() + " frag=" + fragment.str();
        if (with_owner) o += owner ? " owner=1" : " owner=0";
        if (!structErr.empty()) o += " STRUCT-ERROR(" + structErr + ")";
        return o;
    }
    // path text by the harness's own rule (RFC 3986 5.3 as uriparser models it)
    std::string path_text() const {
        std::string p;
        bool host = hostKind != 0;
        if (absolutePath || (host && hasPath)) p += "/";
        for (size_t i = 0; i < segs.size(); i++) { if (i) p += "/"; p += segs[i]; }
        return p;
    }
    bool componentwise_equal(const UriView& o) const {
        return scheme == o.scheme && userInfo == o.userInfo && hostKind == o.hostKind && (hostKind == 2 || hostKind == 3 ? ipBytes == o.ipBytes : hostText == o.hostText) &&
               port == o.port && absolutePath == o.absolutePath && hasPath == o.hasPath && segs == o.segs && query == o.query && fragment == o.fragment;
    }
};

struct QItem { std::string key; bool has_value = false; std::string value; };
inline bool operator==(const QItem& a, const QItem& b) { return a.key == b.key && a.has_value == b.has_value && a.value == b.value; }
inline std::string qitems_str(const std::vector<QItem>& v) {
    std::string o = "[";
    for (size_t i = 0; i < v.size(); i++) { if (i) o += ", "; o += "\"" + hexesc(v[i].key) + "\""; o += v[i].has_value ? "=\"" + hexesc(v[i].value) + "\"" : "=NULL"; }
    return o + "]";
}

void sim_free_public(void* p);      // the libc shim as seen by the caller (frees a string returned with a NULL manager)
void* sim_malloc_public(size_t n);

struct OpOut {
    bool skipped = true, aborted = false;
    int eff_opt = 0;         // effective options after entry-point defaults
    int rc = 0;
    int reqs = 0, frees = 0, fired = 0;
    int aux = 0;             // error offset / mask / chars required / item count
    std::string digest;
    std::string note;
};

enum SlotState { S_EMPTY = 0, S_VALID, S_FAILED, S_FREED, S_STALE };
enum { N_USLOTS = 16, N_QSLOTS = 8, TAG_Q = 100, TAG_STR = 200 };

// manager record placed where callbacks can find it
struct MgrRec { int id; int kind; int index; const UriMemoryManager* self; };   // self: the table object the caller handed over (callbacks must be entered with exactly it)

extern "C" {
void* urisim_cb_malloc(UriMemoryManager* m, size_t n);
void* urisim_cb_calloc(UriMemoryManager* m, size_t a, size_t b);
void* urisim_cb_realloc(UriMemoryManager* m, void* p, size_t n);
void* urisim_cb_reallocarray(UriMemoryManager* m, void* p, size_t a, size_t b);
void urisim_cb_free(UriMemoryManager* m, void* p);
void* urisim_trap_calloc(UriMemoryManager* m, size_t a, size_t b);
void* urisim_trap_realloc(UriMemoryManager* m, void* p, size_t n);
void* urisim_trap_reallocarray(UriMemoryManager* m, void* p, size_t a, size_t b);
}

struct MgrInst {
    int kind = MK_LIBC; int id = 0; int mask = 31;
    UriMemoryManager* table = nullptr;     // what is passed to the library (NULL for MK_LIBC)
    UriMemoryManager* backend = nullptr;   // MK_COMPLETED
    MgrRec* rec = nullptr;
};

// Build the manager tables of a plan inside the obj arena.
std::vector<MgrInst> build_managers(const std::vector<int>& kinds, const std::vector<int>& masks, bool defer_completion = false);
void complete_manager(MgrInst& m);   // MK_COMPLETED with deferred completion: run uriCompleteMemoryManager now

// ------------------------------------------------------------------------------------------------
template <class C> struct Exec {
    typedef Api<C> A;
    typedef typename A::Uri Uri; typedef typename A::Seg Seg; typedef typename A::QL QL; typedef typename A::Range Range;

    struct TextBuf { C* base = nullptr; int win = 0; int total = 0; bool alive = true; std::string copy; };
    struct USlot {
        Uri* u = nullptr; int state = S_EMPTY; int mgr = 0; bool owned = false;
        std::set<int> texts; std::set<int> deps; int producer = -1;
        int path_origin = -1;  // kind of the last op that built or rewrote the path structure (parse/addbase/removebase/normalize with PATH)
        int host_origin = -1;  // same for the host (normalize with HOST)
        bool survivor = false; // left behind by an in-place call that failed for lack of memory and kept in use by the caller (C11 pool)
        std::set<int> ever;    // every text buffer this object ever borrowed from (survives the ownership transfer: this is what source_loss kills)
    };
    struct QSlot {
        QL* head = nullptr; int state = S_EMPTY; int mgr = 0; bool harness_built = false; int count = 0;
        std::vector<QItem> items; std::string composed; bool has_composed = false;
        C* str_ptr = nullptr; int str_mgr = 0;   // compose_malloc result pending free
        int eff_compose_opt = 0;
    };

    const Plan& plan;
    std::vector<MgrInst> mgrs;
    std::vector<TextBuf> texts;
    USlot us[N_USLOTS]; QSlot qs[N_QSLOTS];
    std::vector<OpOut> outs;
    std::vector<int> op_tid;    // text buffer created by each parse/dissect op (-1 none)
    bool faults_enabled = true;
    bool loss_enabled = true;
    bool check_snapshots = true;
    std::function<void(Exec&, int)> after_op;   // engine hook (only called for executed, non-aborted ops)
    int cur_op = -1;

    explicit Exec(const Plan& p) : plan(p) {}

    // ---------------------------------------------------------------- helpers: chars
    static std::string narrow(const C* f, const C* l) {
        std::string o;
        for (const C* p = f; p < l; p++) {
            unsigned long v = (unsigned long)(typename std::make_unsigned<C>::type)*p;
            if (v <= 255) o += (char)v; else { char b[24]; snprintf(b, sizeof b, "{U+%lX}", v); o += b; }
        }
        return o;
    }
    static bool plausible(const void* f, const void* l) {
        if (!f || !l) return false;
        if ((uintptr_t)l < (uintptr_t)f || (uintptr_t)l - (uintptr_t)f > (1u << 24)) return false;
        ArenaId a, b;
        if (in_arena(f, &a)) { if (f == l) return true; return in_arena((const char*)l - 1, &b) && a == b; }
        return true;   // image constants (uriSafeToPointTo, ".", "..")
    }
    static OptStr range_str(const Range& r, std::string* err, const char* name) {
        OptStr o;
        if (!r.first && !r.afterLast) return o;
        if (!r.first || !r.afterLast) { if (err) *err += std::string(name) + ": one end NULL; "; return o; }
        if (r.afterLast < r.first) { if (err) *err += std::string(name) + ": afterLast < first; "; o.present = true; return o; }
        o.present = true;
        if (!plausible(r.first, r.afterLast)) { if (err) *err += std::string(name) + ": implausible range; "; return o; }
        o.s = narrow(r.first, r.afterLast);
        return o;
    }

    static UriView view(const Uri* u) {
        UriView v; std::string& e = v.structErr;
        v.scheme = range_str(u->scheme, &e, "scheme"); v.userInfo = range_str(u->userInfo, &e, "userInfo");
        v.hostText = range_str(u->hostText, &e, "hostText"); v.port = range_str(u->portText, &e, "portText");
        v.query = range_str(u->query, &e, "query"); v.fragment = range_str(u->fragment, &e, "fragment");
        OptStr fut = range_str(u->hostData.ipFuture, &e, "ipFuture");
        int kinds = (u->hostData.ip4 ? 1 : 0) + (u->hostData.ip6 ? 1 : 0) + (fut.present ? 1 : 0);
        if (kinds > 1) e += "more than one host kind set; ";
        if (u->hostData.ip4) { v.hostKind = 2; v.ipBytes.assign((const char*)u->hostData.ip4->data, 4); }
        else if (u->hostData.ip6) { v.hostKind = 3; v.ipBytes.assign((const char*)u->hostData.ip6->data, 16); }
        else if (fut.present) { v.hostKind = 4; if (fut.s != v.hostText.s || !v.hostText.present) e += "ipFuture text differs from hostText; "; }
        else if (v.hostText.present) v.hostKind = 1;
        if (kinds && !v.hostText.present) e += "host data without host text; ";
        v.absolutePath = u->absolutePath != URI_FALSE; v.owner = u->owner != URI_FALSE;
        v.hasPath = u->pathHead != nullptr;
        if ((u->pathHead == nullptr) != (u->pathTail == nullptr)) e += "pathHead/pathTail not NULL together; ";
        const Seg* last = nullptr; int n = 0;
        for (const Seg* s = u->pathHead; s; s = s->next) {
            if (++n > 100000) { e += "path list does not terminate; "; break; }
            OptStr t = range_str(s->text, &e, "segment");
            if (!t.present) e += "segment with NULL text; ";
            v.segs.push_back(t.s); last = s;
        }
        if (u->pathHead && u->pathTail && last != u->pathTail) e += "pathTail is not the last node; ";
        if (v.hostKind != 0 && v.absolutePath) e += "host set together with absolutePath; ";
        return v;
    }

    // raw snapshot of a URI (struct bytes, nodes, host data, texts) for bit-for-bit comparison
    static std::string snapshot(const Uri* u) {
        std::string s((const char*)u, sizeof(Uri));
        auto add = [&](const Range& r) { if (r.first && r.afterLast && r.afterLast >= r.first && plausible(r.first, r.afterLast)) s.append((const char*)r.first, (size_t)((const char*)r.afterLast - (const char*)r.first)); s += '|'; };
        add(u->scheme); add(u->userInfo); add(u->hostText); add(u->hostData.ipFuture); add(u->portText); add(u->query); add(u->fragment);
        if (u->hostData.ip4) s.append((const char*)u->hostData.ip4, 4);
        if (u->hostData.ip6) s.append((const char*)u->hostData.ip6, 16);
        int n = 0;
        for (const Seg* g = u->pathHead; g && n < 100000; g = g->next, n++) { s.append((const char*)g, sizeof(Seg)); add(g->text); }
        return s;
    }

    // protect a read-only URI argument: clear W on its struct and every heap block it references
    struct Prot { std::vector<std::pair<const void*, size_t>> r; };
    static void prot_one(Prot& p, const void* ptr, size_t n) {
        if (!ptr || !n) return;
        ArenaId id; if (!in_arena(ptr, &id) || id == A_TEXT) return;
        if (!(get_perm(ptr) & P_W)) return;   // already protected (same object passed twice) or not writable
        set_perm(ptr, n, perm(P_R, RS_CONST_ARG));
        p.r.emplace_back(ptr, n);
    }
    static void protect(Prot& p, const Uri* u) {
        prot_one(p, u, sizeof(Uri));
        auto rg = [&](const Range& r) { if (r.first && r.afterLast > r.first) prot_one(p, r.first, (size_t)((const char*)r.afterLast - (const char*)r.first)); };
        if (u->owner) { rg(u->scheme); rg(u->userInfo); rg(u->hostText); rg(u->hostData.ipFuture); rg(u->portText); rg(u->query); rg(u->fragment); }
        prot_one(p, u->hostData.ip4, 4); prot_one(p, u->hostData.ip6, 16);
        int n = 0;
        for (const Seg* g = u->pathHead; g && n < 100000; g = g->next, n++) { prot_one(p, g, sizeof(Seg)); if (u->owner) rg(g->text); }
    }
    static void unprotect(Prot& p) {
        for (auto& x : p.r) if (get_perm(x.first) & P_R) set_perm(x.first, x.second, P_RW);
        p.r.clear();
    }

    // ---------------------------------------------------------------- world set-up
    void init() {
        run_reset(plan.junk, (ReusePolicy)plan.reuse, plan.redzone);
        mgrs = build_managers(plan.mgrs, plan.mgr_mask);
        for (int i = 0; i < N_USLOTS; i++) {
            us[i] = USlot();
            us[i].u = (Uri*)arena_alloc(A_OBJ, sizeof(Uri), 16, P_RW);
            // junk-fill: the library must not rely on a zeroed output structure
            for (size_t k = 0; k < sizeof(Uri); k++) ((uint8_t*)us[i].u)[k] = (uint8_t)(0xC0 + ((plan.junk >> (k % 56)) & 0x3f));
            arena_alloc(A_OBJ, 32, 1, perm(0, RS_REDZONE));
        }
        for (int i = 0; i < N_QSLOTS; i++) qs[i] = QSlot();
        outs.assign(plan.ops.size(), OpOut());
        op_tid.assign(plan.ops.size(), -1);
    }

    MgrInst& mgr_of(int idx) { if (idx < 0 || idx >= (int)mgrs.size()) idx = 0; return mgrs[idx]; }

    // Plan text is a byte string. The pair (0x1F, '0'..'9'+) is an escape for a code point above 255 in the wchar_t build (the
    // char build keeps the two bytes as they are): code points whose low byte equals an ASCII character that matters to the
    // grammar, which is where narrowing casts go wrong.
    static std::vector<C> expand(const std::string& bytes) {
        static const unsigned long kWide[] = {0x130, 0x139, 0x235, 0x4E39, 0x161, 0x141, 0x12F, 0x13A, 0x125, 0x15B, 0x100, 0x20AC, 0x10000 + '@', 0x7FFFFF3F};
        std::vector<C> v;
        for (size_t i = 0; i < bytes.size(); i++) {
            unsigned char b = (unsigned char)bytes[i];
            if (sizeof(C) > 1 && b == 0x1F && i + 1 < bytes.size() && bytes[i + 1] >= '0' && bytes[i + 1] <= '0' + 13) { v.push_back((C)kWide[bytes[i + 1] - '0']); i++; }
            else v.push_back((C)b);
        }
        return v;
    }
    // text placement: returns buffer id. chars beyond the window are present in memory but not readable.
    int make_text(const std::string& bytes, int window, int placement, int trail, bool need_nul) {
        static const char* kTrail[] = {"", "]", "0", "a", "%41", "/..", ":", "@", "1.2", "[", "#", "?", "%", "%4", ".", "//", "F"};
        std::vector<C> chars = expand(bytes);
        int n = (int)chars.size();
        int win = (window < 0 || window > n) ? n : window;
        std::vector<C> rest;
        if (!need_nul) {
            rest.assign(chars.begin() + win, chars.end());
            if (placement == 1) for (const char* t = kTrail[(unsigned)trail % (sizeof kTrail / sizeof kTrail[0])]; *t; t++) rest.push_back((C)(unsigned char)*t);
        }
        arena_alloc(A_TEXT, 64, sizeof(C), perm(0, RS_OUT_OF_WINDOW));
        C* base = (C*)arena_alloc(A_TEXT, (size_t)win * sizeof(C), sizeof(C), perm(P_R, RS_INPUT_TEXT));
        for (int i = 0; i < win; i++) base[i] = chars[(size_t)i];
        int total = win;
        if (need_nul) { C* z = (C*)arena_alloc(A_TEXT, sizeof(C), 1, perm(P_R, RS_INPUT_TEXT)); *z = 0; total++; }
        if (!rest.empty()) {
            C* r = (C*)arena_alloc(A_TEXT, rest.size() * sizeof(C), 1, perm(0, RS_OUT_OF_WINDOW));
            for (size_t i = 0; i < rest.size(); i++) r[i] = rest[i];
            total += (int)rest.size();
        }
        // junk after, unreadable
        C* j = (C*)arena_alloc(A_TEXT, 16 * sizeof(C), 1, perm(0, RS_OUT_OF_WINDOW));
        for (int i = 0; i < 16; i++) j[i] = (C)('0' + (i % 10));
        TextBuf tb; tb.base = base; tb.win = win; tb.total = total; tb.alive = true;
        tb.copy.assign((const char*)base, (size_t)total * sizeof(C));
        texts.push_back(tb);
        return (int)texts.size() - 1;
    }

    void kill_text(int id) {
        TextBuf& t = texts[(size_t)id];
        if (!t.alive) return;
        t.alive = false;
        uint8_t* p = (uint8_t*)t.base;
        size_t n = (size_t)t.total * sizeof(C);
        for (size_t i = 0; i < n; i++) p[i] = (uint8_t)(0x21 + ((plan.junk >> (i % 50)) + i * 7) % 0x5d);
        set_perm(t.base, n, perm(0, RS_DEAD_SOURCE));
    }

    // independent of the store monitor: every live input text must still hold the bytes it was given
    void verify_texts(const char* when) {
        for (size_t t = 0; t < texts.size(); t++) {
            TextBuf& tb = texts[t];
            if (!tb.alive) continue;
            if (memcmp(tb.base, tb.copy.data(), tb.copy.size()) != 0) {
                violate(V_STORE_INPUT_TEXT, std::string("caller-supplied input text was altered (found by comparison ") + when + "; the store was not made by instrumented code)", false);
                tb.copy.assign((const char*)tb.base, tb.copy.size());
            }
        }
    }
    void mark_dependents_stale(int slot) {
        for (int i = 0; i < N_USLOTS; i++)
            if (i != slot && us[i].deps.count(slot) && us[i].state == S_VALID) us[i].state = S_STALE;
    }
    void lose_sources(int slot) {
        std::set<int> t = us[slot].ever;
        event("source_loss for u%d: %zu text buffer(s)", slot, t.size());
        for (int id : t) kill_text(id);
        for (int i = 0; i < N_USLOTS; i++) {
            if (i == slot || us[i].state != S_VALID) continue;
            for (int id : us[i].texts) if (!texts[(size_t)id].alive) { us[i].state = S_STALE; break; }
        }
        if (us[slot].state == S_VALID && !us[slot].owned) us[slot].state = S_STALE;
    }

    // ---------------------------------------------------------------- library call wrapper
    template <class F> bool call(int opi, int tag, int mgr_index, const FaultPlan& fp, F&& fn) {
        MgrInst& m = mgr_of(mgr_index);
        call_begin(opi, tag, mgr_index < 0 ? -1 : m.id, fp);
        bool ok = false;
        // errno at entry is whatever an earlier, unrelated call of the caller left there
        { static const int kErr[] = {0, ENOMEM, EINVAL, ERANGE, 0, EDOM, ENOMEM, 0}; errno = kErr[((plan.junk >> 7) + (unsigned)opi * 5u + (unsigned)(tag + 3)) & 7]; }
        LIBCALL_RUN({ fn(); }, ok);
        outs_tmp_reqs = g.cur->req_count; outs_tmp_frees = g.cur->free_count; outs_tmp_fired = g.cur->fired;
        call_end();
        return ok && !g.abort_run;
    }
    int outs_tmp_reqs = 0, outs_tmp_frees = 0, outs_tmp_fired = 0;

    FaultPlan fault_of(const Op& op) const {
        FaultPlan f;
        if (faults_enabled && op.fail_k > 0) { f.k = op.fail_k; f.mode = op.fail_mode; f.set = op.fail_set; }
        return f;
    }

    // free members of a slot through its manager; `times` calls
    bool free_slot(int opi, int s, int entry, int times) {
        USlot& sl = us[s];
        MgrInst& m = mgr_of(sl.mgr);
        for (int t = 0; t < times; t++) {
            volatile int rc = 0;
            bool ok;
            if (m.kind == MK_LIBC && entry == 0) ok = call(opi, s, sl.mgr, FaultPlan(), [&] { A::FreeUriMembers(sl.u); });
            else ok = call(opi, s, sl.mgr, FaultPlan(), [&] { rc = A::FreeUriMembersMm(sl.u, m.table); });
            if (!ok) return false;
            if (rc != URI_SUCCESS) violate(V_WRONG_RC, "uriFreeUriMembersMm returned " + std::to_string(rc), false);
            if (t == 0) {
                int live = heap_live_count(-1, s, -1);
                if (live) violate(V_LEAK_AFTER_RELEASE, "after freeing the members of u" + std::to_string(s) + " " + std::to_string(live) + " block(s) requested for it are still outstanding: " + heap_live_desc(-1, s, -1), false);
            }
        }
        return true;
    }

    // ---------------------------------------------------------------- caller-owned output buffers with canaries on both sides
    // The store monitor sees stores made by library code and the interposed libc routines; the canaries are the independent
    // check for stores made by anything else the library might call.
    struct Guarded { C* buf = nullptr; uint8_t* pre = nullptr; uint8_t* post = nullptr; };
    enum { GUARD_PRE = 32, GUARD_POST = 96 };
    Guarded guarded_buf(size_t chars) {
        Guarded gb;
        gb.pre = (uint8_t*)arena_alloc(A_OBJ, GUARD_PRE, sizeof(C), perm(0, RS_REDZONE));
        gb.buf = (C*)arena_alloc(A_OBJ, chars * sizeof(C), sizeof(C), P_RW);
        gb.post = (uint8_t*)arena_alloc(A_OBJ, GUARD_POST, 1, perm(0, RS_REDZONE));
        memset(gb.pre, 0xC5, GUARD_PRE); memset(gb.post, 0xC5, GUARD_POST);
        for (size_t i = 0; i < chars; i++) gb.buf[i] = (C)0x7e;
        return gb;
    }
    bool guards_intact(const Guarded& gb, const char* what) {
        for (int i = 0; i < GUARD_PRE; i++) if (gb.pre[i] != 0xC5) { violate(V_STORE_BEYOND_CAP, std::string(what) + ": bytes in front of the destination buffer were overwritten", false); return false; }
        for (int i = 0; i < GUARD_POST; i++) if (gb.post[i] != 0xC5) { violate(V_STORE_BEYOND_CAP, std::string(what) + ": byte " + std::to_string(i) + " behind the stated capacity was overwritten (canary; the store was not made by instrumented code)", false); return false; }
        return true;
    }

    // ---------------------------------------------------------------- to-string helpers (used by engines too)
    // returns false if the run was aborted. required<0 => chars-required failed with rc
    bool chars_required(int opi, const Uri* u, int* required, int* rc_out) {
        int* req = (int*)arena_alloc(A_OBJ, sizeof(int), 4, P_RW); *req = -12345;
        arena_alloc(A_OBJ, 16, 1, perm(0, RS_REDZONE));
        volatile int rc = 0;
        Prot pr; protect(pr, u);
        bool ok = call(opi, -1, -1, FaultPlan(), [&] { rc = A::ToStringCharsRequired(u, req); });
        unprotect(pr);
        if (!ok) return false;
        *required = *req; *rc_out = rc;
        return true;
    }
    // one ToString call with capacity cap into a fresh buffer; checks the C05 contract. text_out gets the text on success.
    bool tostring_cap(int opi, const Uri* u, int cap, bool with_written, int required, std::string* text_out, int* rc_out, int* len_out = nullptr) {
        int alloc_chars = cap > 0 ? cap : 0;
        // a caller that knows the text fits may state a capacity far beyond it ("no limit"): the buffer then really holds required+8
        if (required >= 0 && cap > required + 4096) alloc_chars = required + 8;
        Guarded gb = guarded_buf((size_t)alloc_chars);
        C* dest = gb.buf;
        int* written = nullptr;
        if (with_written) { written = (int*)arena_alloc(A_OBJ, sizeof(int), 4, P_RW); *written = -777; arena_alloc(A_OBJ, 16, 1, perm(0, RS_REDZONE)); }
        volatile int rc = 0;
        Prot pr; protect(pr, u);
        bool ok = call(opi, -1, -1, FaultPlan(), [&] { rc = A::ToString(dest, u, cap, written); });
        unprotect(pr);
        if (!ok) return false;
        *rc_out = rc;
        guards_intact(gb, "uriToString");
        char buf[200];
        if (required >= 0) {
            if (cap >= required + 1) {
                if (rc != URI_SUCCESS) { snprintf(buf, sizeof buf, "capacity %d >= required %d + 1 but uriToString returned %d", cap, required, (int)rc); violate(V_SIZE_CONTRACT, buf, false); }
                else {
                    int len = 0; while (len < alloc_chars && dest[len] != 0) len++;
                    if (len != required) { snprintf(buf, sizeof buf, "text written has length %d, chars-required said %d (capacity %d)", len, required, cap); violate(V_SIZE_CONTRACT, buf, false); }
                    if (written && *written != required + 1) { snprintf(buf, sizeof buf, "charsWritten=%d, expected required+1=%d (capacity %d)", *written, required + 1, cap); violate(V_SIZE_CONTRACT, buf, false); }
                    if (text_out) *text_out = narrow(dest, dest + len);
                }
            } else {
                if (rc != URI_ERROR_TOSTRING_TOO_LONG) { snprintf(buf, sizeof buf, "capacity %d < required %d + 1 but uriToString returned %d instead of the too-long code", cap, required, (int)rc); violate(V_SIZE_CONTRACT, buf, false); }
                if (written && *written != 0) { snprintf(buf, sizeof buf, "too small capacity %d: charsWritten=%d, expected 0", cap, *written); violate(V_SIZE_CONTRACT, buf, false); }
                if (cap >= 1 && dest[0] != 0) { snprintf(buf, sizeof buf, "too small capacity %d: destination is not left as an empty string", cap); violate(V_SIZE_CONTRACT, buf, false); }
            }
        } else if (rc == URI_SUCCESS && text_out) {
            int len = 0; while (len < alloc_chars && dest[len] != 0) len++;
            *text_out = narrow(dest, dest + len);
            if (len_out) *len_out = len;
            if (written && *written != len + 1) { snprintf(buf, sizeof buf, "charsWritten=%d but the text written has %d characters (capacity %d)", *written, len, cap); violate(V_SIZE_CONTRACT, buf, false); }
        }
        return true;
    }
    // full recomposition with ample room. ok=false => aborted. rc!=0 => text empty.
    bool to_text(int opi, const Uri* u, std::string* text, int* rc_out, int* required_out = nullptr) {
        int req = -1, rc = 0;
        if (!chars_required(opi, u, &req, &rc)) return false;
        if (rc != URI_SUCCESS) { *rc_out = rc; return true; }
        if (required_out) *required_out = req;
        if (req < 0 || req > (1 << 22)) { violate(V_SIZE_CONTRACT, "chars-required returned " + std::to_string(req), false); *rc_out = -1; return true; }
        return tostring_cap(opi, u, req + 1, true, req, text, rc_out);
    }

    // ---------------------------------------------------------------- query list helpers
    static std::vector<QItem> read_list(const QL* q) {
        std::vector<QItem> v; int n = 0;
        for (; q && n < 100000; q = q->next, n++) {
            QItem it;
            if (q->key) { const C* e = q->key; while (*e) e++; it.key = narrow(q->key, e); } else it.key = "<NULL-KEY>";
            if (q->value) { const C* e = q->value; while (*e) e++; it.has_value = true; it.value = narrow(q->value, e); }
            v.push_back(it);
        }
        return v;
    }
    C* put_str(const std::string& s, ArenaId ar) {
        arena_alloc(ar, 16, sizeof(C), perm(0, RS_REDZONE));
        // query items, escape and filename inputs range over code points 1..255 only (C17's domain): no wide escapes here
        std::vector<C> ch; for (unsigned char b : s) ch.push_back((C)b);
        C* p = (C*)arena_alloc(ar, (ch.size() + 1) * sizeof(C), sizeof(C), perm(P_R, RS_INPUT_TEXT));
        for (size_t i = 0; i < ch.size(); i++) p[i] = ch[i];
        p[ch.size()] = 0;
        arena_alloc(ar, 16, 1, perm(0, RS_REDZONE));
        return p;
    }
    void protect_list(Prot& p, const QL* q) {
        int n = 0;
        for (; q && n < 100000; q = q->next, n++) {
            prot_one(p, q, sizeof(QL));
            if (q->key) { const C* e = q->key; while (*e) e++; prot_one(p, q->key, (size_t)((const char*)(e + 1) - (const char*)q->key)); }
            if (q->value) { const C* e = q->value; while (*e) e++; prot_one(p, q->value, (size_t)((const char*)(e + 1) - (const char*)q->value)); }
        }
    }
    static std::string snapshot_list(const QL* q) {
        std::string s; int n = 0;
        for (; q && n < 100000; q = q->next, n++) {
            s.append((const char*)q, sizeof(QL));
            if (q->key) { const C* e = q->key; while (*e) e++; s.append((const char*)q->key, (size_t)((const char*)e - (const char*)q->key)); }
            s += '=';
            if (q->value) { const C* e = q->value; while (*e) e++; s.append((const char*)q->value, (size_t)((const char*)e - (const char*)q->value)); }
            s += '&';
        }
        return s;
    }

    // ---------------------------------------------------------------- op execution
    bool uri_ok(int s) const { return s >= 0 && s < N_USLOTS && us[s].state == S_VALID; }

    // release whatever is in slot s so it can be reused as destination
    bool vacate(int opi, int s) {
        if (us[s].state == S_VALID || us[s].state == S_STALE) {
            mark_dependents_stale(s);
            if (!free_slot(opi, s, 1, 1)) return false;
        }
        us[s].state = S_EMPTY; us[s].owned = false; us[s].texts.clear(); us[s].deps.clear(); us[s].ever.clear(); us[s].survivor = false;
        return true;
    }

    void inherit(USlot& d, const USlot& src, int src_index) {
        d.texts.insert(src.texts.begin(), src.texts.end());
        d.ever.insert(src.ever.begin(), src.ever.end());
        if (src.owned) d.deps.insert(src_index); else d.deps.insert(src.deps.begin(), src.deps.end());
    }

    // For one call: clear function pointers of a manager table in place (same object, now incomplete) and restore them afterwards.
    struct BreakGuard {
        MgrInst* m = nullptr; UriMemoryManager saved; int saved_kind = 0;
        BreakGuard(Exec& ex, const Op& op, int mgr_index) {
            if (!op.brk) return;
            MgrInst& mi = ex.mgr_of(mgr_index);
            if ((mi.kind != MK_SIM && mi.kind != MK_COMPLETED) || !mi.table) return;
            m = &mi; saved = *mi.table; saved_kind = mi.kind;
            set_perm(mi.table, sizeof(UriMemoryManager), P_RW);
            int k = op.brk & 31; if (!k) k = 1;
            if (k & 1) mi.table->malloc = nullptr; if (k & 2) mi.table->calloc = nullptr; if (k & 4) mi.table->realloc = nullptr;
            if (k & 8) mi.table->reallocarray = nullptr; if (k & 16) mi.table->free = nullptr;
            set_perm(mi.table, sizeof(UriMemoryManager), perm(P_R, RS_CONST_ARG));
            mi.kind = MK_INCOMPLETE;
            event("manager m%d broken in place (mask %d)", mi.id, k);
        }
        ~BreakGuard() {
            if (!m) return;
            set_perm(m->table, sizeof(UriMemoryManager), P_RW);
            *m->table = saved;
            set_perm(m->table, sizeof(UriMemoryManager), perm(P_R, RS_CONST_ARG));
            m->kind = saved_kind;
        }
    };

    void exec_op(int i);
    void exec_parse(int i, const Op& op, OpOut& o);
    void exec_resolve(int i, const Op& op, OpOut& o, bool add);
    void exec_inplace(int i, const Op& op, OpOut& o, bool normalize);
    void exec_tostring(int i, const Op& op, OpOut& o);
    void exec_query(int i, const Op& op, OpOut& o);
    void exec_misc(int i, const Op& op, OpOut& o);

    // after a fired allocation failure on op i whose output/in-place object is slot s: caller's ordinary cleanup + ledger check
    void after_failure_cleanup(int i, int s, bool lib_already_freed) {
        (void)lib_already_freed;
        if (s >= 0) {
            if (!free_slot(i, s, 1, 1 + plan.ops[(size_t)i].refree)) return;
            us[s].state = S_FREED; us[s].owned = false; us[s].texts.clear(); us[s].deps.clear();
        }
        int live = heap_live_count(-1, -1, i);
        if (live) violate(V_LEAK_AFTER_FAILURE, "after the failed call and the caller's ordinary cleanup " + std::to_string(live) + " block(s) requested during the call are still outstanding: " + heap_live_desc(-1, -1, i), false);
    }

    void finish() {
        if (g.abort_run) return;
        int n = (int)plan.ops.size();
        for (int s = 0; s < N_QSLOTS && !g.abort_run; s++) {
            QSlot& q = qs[s];
            if (q.str_ptr) {
                MgrInst& m = mgr_of(q.str_mgr); C* p = q.str_ptr; q.str_ptr = nullptr;
                if (m.kind == MK_LIBC) { call(n, TAG_STR + s, q.str_mgr, FaultPlan(), [&] { sim_free_public(p); }); }
                else call(n, TAG_STR + s, q.str_mgr, FaultPlan(), [&] { m.table->free(m.table, p); });
            }
            if (q.state == S_VALID && !q.harness_built && q.head) {
                MgrInst& m = mgr_of(q.mgr); QL* h = q.head; q.head = nullptr;
                call(n, TAG_Q + s, q.mgr, FaultPlan(), [&] { A::FreeQueryListMm(h, m.table); });
            }
            q.state = S_EMPTY;
        }
        for (int s = 0; s < N_USLOTS && !g.abort_run; s++)
            if (us[s].state == S_VALID || us[s].state == S_STALE) { free_slot(n, s, 1, 1); us[s].state = S_FREED; }
        if (g.abort_run) return;
        verify_texts("at the end of the run");
        { int bad = heap_check_all_redzones(); if (bad) violate(V_HEAP_OVERFLOW, std::to_string(bad) + " live block(s) have a damaged red zone at the end of the run", false); }
        int live = heap_live_count();
        if (live) violate(V_LEAK_AT_END, "at the end of the run, after every object was released through its release call, " + std::to_string(live) + " block(s) are outstanding: " + heap_live_desc(), false);
    }

    void run() {
        init();
        for (int i = 0; i < (int)plan.ops.size() && !g.abort_run; i++) exec_op(i);
        finish();
    }
};

}  // namespace sim

#include "exec_impl.h"
