#!/usr/bin/env python3
"""lower_memintrinsics.py in.ll out.ll
sancov's trace-loads/trace-stores does not see llvm.memcpy/memmove/memset intrinsics, and clang uses them for every struct
assignment (`dest->scheme = src->scheme;`, `*a = *b;`, `= {0}`), which the backend then expands to plain moves. This rewrites
them into ordinary calls of memcpy/memmove/memset, which the build renames to the simulator's range-checking shims, so that
aggregate copies made by library code are monitored like every other load and store."""
import re, sys
src = open(sys.argv[1]).read().split('\n')
out = []; need = set(); n = 0
cp = re.compile(r'^(\s*)(?:(?:tail|musttail|notail) )?call void @llvm\.mem(cpy|move)\.p0i8\.p0i8\.i64\((.*), i1 (?:false|true)\)(.*)$')
st = re.compile(r'^(\s*)(?:(?:tail|musttail|notail) )?call void @llvm\.memset\.p0i8\.i64\((.*), i8 ([^,]+), i64 ([^,]+), i1 (?:false|true)\)(.*)$')
def clean(rest): return re.sub(r', !tbaa\.struct !\d+', '', rest)
for line in src:
    m = cp.match(line)
    if m:
        ind, which, args, rest = m.groups()
        out.append(f'{ind}%urisim.mi{n} = call i8* @mem{which}({args}){clean(rest)}'); n += 1; need.add('mem' + which); continue
    m = st.match(line)
    if m:
        ind, ptr, val, size, rest = m.groups()
        if re.fullmatch(r'-?\d+', val): v = f'i32 {int(val) & 255}'
        else:
            out.append(f'{ind}%urisim.mz{n} = zext i8 {val} to i32'); v = f'i32 %urisim.mz{n}'
        out.append(f'{ind}%urisim.mi{n} = call i8* @memset({ptr}, {v}, i64 {size}){clean(rest)}'); n += 1; need.add('memset'); continue
    if 'call void @llvm.mem' in line and 'element.unordered' not in line:
        sys.stderr.write('lower_memintrinsics: unhandled intrinsic form: ' + line.strip()[:200] + '\n'); sys.exit(1)
    out.append(line)
text = '\n'.join(out)
decl = {'memcpy': 'declare i8* @memcpy(i8*, i8*, i64)', 'memmove': 'declare i8* @memmove(i8*, i8*, i64)', 'memset': 'declare i8* @memset(i8*, i32, i64)'}
for f in sorted(need):
    if not re.search(r'^(declare|define)[^\n]*@' + f + r'\(', text, re.M): text += '\n' + decl[f] + '\n'
open(sys.argv[2], 'w').write(text)
