#include "engines.h"
namespace sim { Verdict check_plan_W(const Plan& p, Stats& st) { return check_plan_T<wchar_t>(p, st); } }
