// Minimal JSON value (ordered object keys) for plans, replay files and evidence.
#pragma once
#include <string>
#include <vector>
#include <utility>
#include <cstdint>
#include <cstdio>
#include <cstdlib>
#include <cstring>

struct J {
    enum T { NUL, BOOL, INT, DBL, STR, ARR, OBJ } t = NUL;
    bool b = false; long long i = 0; double d = 0; std::string s;
    std::vector<J> a; std::vector<std::pair<std::string, J>> o;
    J() {}
    J(bool v) : t(BOOL), b(v) {}
    J(int v) : t(INT), i(v) {}
    J(long v) : t(INT), i(v) {}
    J(long long v) : t(INT), i(v) {}
    J(unsigned v) : t(INT), i(v) {}
    J(unsigned long v) : t(INT), i((long long)v) {}
    J(unsigned long long v) : t(INT), i((long long)v) {}
    J(double v) : t(DBL), d(v) {}
    J(const char* v) : t(STR), s(v) {}
    J(const std::string& v) : t(STR), s(v) {}
    static J arr() { J j; j.t = ARR; return j; }
    static J obj() { J j; j.t = OBJ; return j; }
    J& set(const std::string& k, const J& v) {
        t = OBJ;
        for (auto& kv : o) if (kv.first == k) { kv.second = v; return *this; }
        o.emplace_back(k, v); return *this;
    }
    J& push(const J& v) { t = ARR; a.push_back(v); return *this; }
    const J* get(const std::string& k) const { for (auto& kv : o) if (kv.first == k) return &kv.second; return nullptr; }
    long long geti(const std::string& k, long long def = 0) const { const J* j = get(k); return j && (j->t == INT || j->t == BOOL) ? (j->t == INT ? j->i : j->b) : (j && j->t == DBL ? (long long)j->d : def); }
    std::string gets(const std::string& k, const std::string& def = "") const { const J* j = get(k); return j && j->t == STR ? j->s : def; }
    bool has(const std::string& k) const { return get(k) != nullptr; }

    static void esc(const std::string& s, std::string& out) {
        out += '"';
        for (unsigned char c : s) {
            if (c == '"') out += "\\\""; else if (c == '\\') out += "\\\\";
            else if (c == '\n') out += "\\n"; else if (c == '\t') out += "\\t"; else if (c == '\r') out += "\\r";
            else if (c < 0x20 || c >= 0x7f) { char b[8]; snprintf(b, sizeof b, "\\u%04x", c); out += b; }
            else out += (char)c;
        }
        out += '"';
    }
    void dump(std::string& out, int ind = -1, int lvl = 0) const {
        auto nl = [&](int l) { if (ind >= 0) { out += '\n'; out.append((size_t)(ind * l), ' '); } };
        switch (t) {
        case NUL: out += "null"; break;
        case BOOL: out += b ? "true" : "false"; break;
        case INT: out += std::to_string(i); break;
        case DBL: { char buf[40]; snprintf(buf, sizeof buf, "%.6g", d); out += buf; break; }
        case STR: esc(s, out); break;
        case ARR:
            out += '[';
            for (size_t k = 0; k < a.size(); k++) { if (k) out += ','; nl(lvl + 1); a[k].dump(out, ind, lvl + 1); }
            if (!a.empty()) nl(lvl);
            out += ']'; break;
        case OBJ:
            out += '{';
            for (size_t k = 0; k < o.size(); k++) { if (k) out += ','; nl(lvl + 1); esc(o[k].first, out); out += ind >= 0 ? ": " : ":"; o[k].second.dump(out, ind, lvl + 1); }
            if (!o.empty()) nl(lvl);
            out += '}'; break;
        }
    }
    std::string str(int ind = -1) const { std::string s; dump(s, ind); return s; }

    // ---- parser
    struct P { const char* p; const char* e; bool ok = true; };
    static void ws(P& p) { while (p.p < p.e && (*p.p == ' ' || *p.p == '\n' || *p.p == '\t' || *p.p == '\r')) p.p++; }
    static J parse_val(P& p) {
        ws(p); J j;
        if (p.p >= p.e) { p.ok = false; return j; }
        char c = *p.p;
        if (c == '{') {
            p.p++; j.t = OBJ; ws(p);
            if (p.p < p.e && *p.p == '}') { p.p++; return j; }
            while (p.ok) {
                ws(p); J k = parse_val(p); if (k.t != STR) { p.ok = false; break; }
                ws(p); if (p.p >= p.e || *p.p != ':') { p.ok = false; break; } p.p++;
                J v = parse_val(p); j.o.emplace_back(k.s, v); ws(p);
                if (p.p < p.e && *p.p == ',') { p.p++; continue; }
                if (p.p < p.e && *p.p == '}') { p.p++; break; }
                p.ok = false;
            }
        } else if (c == '[') {
            p.p++; j.t = ARR; ws(p);
            if (p.p < p.e && *p.p == ']') { p.p++; return j; }
            while (p.ok) {
                J v = parse_val(p); j.a.push_back(v); ws(p);
                if (p.p < p.e && *p.p == ',') { p.p++; continue; }
                if (p.p < p.e && *p.p == ']') { p.p++; break; }
                p.ok = false;
            }
        } else if (c == '"') {
            p.p++; j.t = STR;
            while (p.p < p.e && *p.p != '"') {
                if (*p.p == '\\' && p.p + 1 < p.e) {
                    p.p++;
                    char e = *p.p++;
                    if (e == 'n') j.s += '\n'; else if (e == 't') j.s += '\t'; else if (e == 'r') j.s += '\r';
                    else if (e == 'u' && p.p + 4 <= p.e) { char h[5] = {p.p[0], p.p[1], p.p[2], p.p[3], 0}; j.s += (char)strtol(h, nullptr, 16); p.p += 4; }
                    else j.s += e;
                } else j.s += *p.p++;
            }
            if (p.p < p.e) p.p++; else p.ok = false;
        } else if (c == 't' && p.e - p.p >= 4 && !strncmp(p.p, "true", 4)) { p.p += 4; j.t = BOOL; j.b = true; }
        else if (c == 'f' && p.e - p.p >= 5 && !strncmp(p.p, "false", 5)) { p.p += 5; j.t = BOOL; j.b = false; }
        else if (c == 'n' && p.e - p.p >= 4 && !strncmp(p.p, "null", 4)) { p.p += 4; }
        else {
            char* end = nullptr;
            const char* st = p.p;
            bool isd = false;
            const char* q = st;
            if (q < p.e && (*q == '-' || *q == '+')) q++;
            while (q < p.e && ((*q >= '0' && *q <= '9') || *q == '.' || *q == 'e' || *q == 'E' || *q == '-' || *q == '+')) { if (*q == '.' || *q == 'e' || *q == 'E') isd = true; q++; }
            if (q == st) { p.ok = false; return j; }
            std::string num(st, q);
            if (isd) { j.t = DBL; j.d = strtod(num.c_str(), &end); }
            else { j.t = INT; j.i = (long long)strtoull(num.c_str() + (num[0] == '-' ? 1 : 0), &end, 10); if (num[0] == '-') j.i = -j.i; }
            p.p = q;
        }
        return j;
    }
    static bool parse(const std::string& text, J& out) { P p{text.data(), text.data() + text.size()}; out = parse_val(p); ws(p); return p.ok; }
};
