#include "engines.h"
namespace sim { Verdict check_plan_A(const Plan& p, Stats& st) { return check_plan_T<char>(p, st); } }
