#include "gen.h"
#include <algorithm>
#include <cstring>
#include <cctype>

namespace sim { namespace gen {

static const std::vector<std::string> kSchemes = {"s", "S", "http", "a+b.c-", "Fi-Le", "z9"};
static const std::vector<std::string> kUser = {"", "u", "u:p", "%41", "%7e", "U%2fx", ":", "a%3Ab",
    // after "name:" the parser is in its "port or user info" state: digits first, then every other character class once
    "u:%7Epw", "u:80%7e", "u:8~", "u:1-._~", "u:%41", "u:1!$&'()*+,;=", "1.2.3.4:%70w", "u:80", "u::", "a_b~c:-"};
static const std::vector<std::string> kHosts = {"", "h", "H.%61", "example.com", "1.2.3.4", "256.1.1.1", "01.2.3.4", "[::1]", "[1:2::ffff:1.2.3.4]",
    "[v1.A:b]", "[vF.x]", "[2001:DB8::7]", "[::]", "[1:2:3:4:5:6:7:8]", "%41%2e", "A%7Eb", "1.2.3.%34", "h-1", "1.2.3", "[::ffff:10.0.0.1]", "x%C3%A9"};
static const std::vector<std::string> kPorts = {"", "80", "0", "65536", "8080", "0080", "00", "007", "1000000000", "5294967296", "80", "443"};
static const std::vector<std::string> kSegs = {"", ".", "..", "a", "b", "c", "a:b", ":", "%2e", "%2E%2e", "%41", "%c3%a9", ";x", "a.b", "...", "%2F", "A",
    "%7e", "x%3a", "b:c", "..a", "%2e%2e", "d", "", ".", ".."};
static const std::vector<std::string> kQF = {"", "q", "a=b&c", "%7E%2f", "?/", "x%41", "k=v%20w", "%3d", ":@/?"};
// hosts: fixed vocabulary plus seeded IPv4 / IPv6 literals whose octets and groups sit on rendering boundaries
static std::string pick_host(Rng& r) {
    int k = (int)r.below(100);
    if (k < 62) return r.pick(kHosts);
    static const int oct[] = {0, 1, 9, 10, 19, 20, 99, 100, 101, 109, 110, 199, 200, 249, 250, 255};
    static const char* bad_oct[] = {"256", "259", "260", "265", "299", "300", "999", "00", "010", "1000", "+4", "-0", "2 "};
    // one octet in ten is just outside the legal range (then the host is a registered name, or a syntax error)
    auto ip4 = [&]() { std::string t; for (int i = 0; i < 4; i++) { if (i) t += "."; if (r.chance(40)) t += bad_oct[r.below(13)]; else t += std::to_string(oct[r.below(16)]); } return t; };
    if (k < 80) return ip4();
    static const char* grp[] = {"0", "1", "a", "F", "10", "ab", "100", "aBc", "1000", "ffff", "FFFF", "dB8", "0000", "01"};
    // a group of seeded hex digits: 1-4 of them, rarely 5 or 6 (one too many for the scanner's digit history), either letter case
    auto hexgrp = [&]() { std::string g; int n = r.chance(90) ? r.range(5, 6) : r.range(1, 4); for (int i = 0; i < n; i++) { char c = "0123456789abcdef"[r.below(16)]; if (c >= 'a' && r.chance(512)) c = (char)(c - 32); g += c; } return g; };
    std::string t = "[";
    int n = r.range(1, 8), zip = r.chance(600) ? r.range(0, n) : -1;
    bool v4 = r.chance(200);
    if (zip < 0) n = v4 ? 6 : 8;
    for (int i = 0; i < n; i++) {
        if (i == zip) t += i == 0 ? "::" : ":";
        t += r.chance(350) ? hexgrp() : std::string(grp[r.below(14)]);
        if (i + 1 < n || v4) t += ":";
    }
    if (zip == n) t += t.back() == ':' ? ":" : "::";
    if (v4) t += ip4(); else if (t.back() == ':' && !(t.size() >= 2 && t[t.size() - 2] == ':')) t.pop_back();
    t += "]";
    return t;
}
// segments: fixed vocabulary, more often the rarer colon / empty shapes when asked for a "special" segment
static const std::vector<std::string> kSpecialSegs = {"a:b", ":", "1:c", ":80", "%31:c", "12:30", "_:x", "", "", "x%3a", "b:c", "..", "."};

static const char kMutBytes[] = "[]%:/?#@.\x80\xff \\^{}|\"<>`a1AfF~-_+;=&!$'()*,\x7f\x01";

// long mode: one component is stretched far beyond anything the vocabulary holds (sizes just around 63/255/1024/4096 matter to
// length arithmetic in int / unsigned char and to fixed thresholds a changed library might introduce)
static std::string stretched(Rng& r, int flavour) {
    static const int lens[] = {64, 100, 254, 255, 256, 300, 1023, 1024, 1025, 1500, 4100};
    int n = lens[r.below(sizeof lens / sizeof lens[0])];
    std::string s;
    switch (flavour) {
    case 0: for (int i = 0; i < n; i++) s += (char)('a' + (i * 7) % 26); break;                              // plain
    case 1: for (int i = 0; i + 3 <= n; i += 3) s += (i % 9 == 0) ? "%7e" : (i % 9 == 3 ? "%C3" : "%a9"); break;   // percent triplets
    case 2: for (int i = 0; i < n; i++) s += (i % 2) ? '.' : (char)('A' + i % 26); break;                      // labels / dots, upper case
    case 3: for (int i = 0; i < n; i++) s += (char)('0' + i % 10); break;                                     // digits
    default: {   // scheme-like run with the one character that matters (':') far from the start
        int at = r.pick(std::vector<int>{62, 63, 64, 65, 127, 128, 255, 256, 300}); if (at >= n) at = n - 1;
        for (int i = 0; i < n; i++) s += i == at ? ':' : (char)('a' + (i * 5) % 26);
        break; }
    }
    return s;
}

std::string uri_text(Rng& r, const TextCfg& c) {
    std::string t;
    bool scheme = r.chance(520), auth = r.chance(400);
    int stretch = c.long_mode ? r.range(0, 7) : -1;   // 0 user info, 1 host, 2 port, 3 one segment, 4 query, 5 fragment, 6 scheme, 7 many segments
    if (stretch >= 0 && stretch <= 2) auth = true;
    if (stretch == 6) scheme = true;
    if (scheme) t += (stretch == 6 ? "x" + stretched(r, 0) : r.pick(kSchemes)) + ":";
    if (auth) {
        t += "//";
        if (stretch == 0) t += stretched(r, r.range(0, 1)) + "@"; else if (r.chance(300)) t += r.pick(kUser) + "@";
        t += stretch == 1 ? stretched(r, r.range(0, 2)) : pick_host(r);
        if (stretch == 2) t += ":" + stretched(r, 3); else if (r.chance(300)) t += ":" + r.pick(kPorts);
    }
    int nseg = r.chance(150) ? 0 : r.range(1, c.max_segs);
    if (c.long_mode) nseg = stretch == 7 ? r.range(30, 120) : r.range(1, c.max_segs * 2);
    std::vector<std::string> segs;
    if (nseg && r.chance(140)) {
        // dot-cancel flavour: k ordinary segments, the dot segments that cancel them (sometimes one more or one fewer),
        // then a segment that must not end up first unguarded (colon, empty, empty+empty)
        int k = r.range(1, 3);
        static const std::vector<std::string> plain = {"a", "b", "x", "%7e", "A"};
        for (int i = 0; i < k; i++) segs.push_back(r.pick(plain));
        int ups = k + r.range(-1, 1);
        for (int i = 0; i < ups; i++) { segs.push_back(r.chance(850) ? ".." : "%2E%2e"); if (r.chance(200)) segs.push_back("."); }
        int sp = r.range(1, 3);
        for (int i = 0; i < sp; i++) segs.push_back(r.pick(kSpecialSegs));
        if (r.chance(400)) segs.push_back(r.pick(kSegs));
    } else for (int i = 0; i < nseg; i++) segs.push_back(r.chance(60) ? r.pick(kSpecialSegs) : r.pick(kSegs));
    if (stretch == 3) { if (segs.empty()) segs.push_back(""); segs[r.below((uint32_t)segs.size())] = stretched(r, r.chance(300) ? 4 : r.range(0, 2)); }
    if (auth) {
        for (auto& sg : segs) t += "/" + sg;
    } else if (!segs.empty()) {
        bool abs = r.chance(420);
        if (abs) t += "/";
        for (size_t i = 0; i < segs.size(); i++) { if (i) t += "/"; t += segs[i]; }
    }
    if (stretch == 4) t += "?" + stretched(r, r.range(0, 1)); else if (r.chance(300)) t += "?" + r.pick(kQF);
    if (stretch == 5) t += "#" + stretched(r, r.range(0, 1)); else if (r.chance(280)) t += "#" + r.pick(kQF);
    if (r.chance((uint32_t)c.mutate_per1024)) {
        int n = r.range(1, 3);
        for (int i = 0; i < n; i++) {
            int how = r.range(0, 2);
            size_t pos = t.empty() ? 0 : r.below((uint32_t)t.size() + 1);
            char b = kMutBytes[r.below(sizeof kMutBytes - 1)];
            if (how == 0 || t.empty()) t.insert(pos, 1, b);
            else if (how == 1) { if (pos >= t.size()) pos = t.size() - 1; t.erase(pos, 1); }
            else { if (pos >= t.size()) pos = t.size() - 1; t[pos] = b; }
        }
    }
    if ((int)t.size() > c.max_len && !c.long_mode) t.resize((size_t)c.max_len);
    for (auto& ch : t) if (ch == 0) ch = 'x';
    // rarely: a NUL byte inside the range, or (wide build) a code point above 255 whose low byte looks like ASCII
    if (r.chance(25) && !t.empty()) t[r.below((uint32_t)t.size())] = '\0';
    if (r.chance(40)) { std::string esc; esc += (char)0x1F; esc += (char)('0' + r.below(14)); t.insert(t.empty() ? 0 : r.below((uint32_t)t.size() + 1), esc); }
    return t;
}

std::string UriParts::render() const {
    std::string t;
    if (has_scheme) t += scheme + ":";
    if (has_auth) { t += "//"; if (has_user) t += user + "@"; t += host; if (has_port) t += ":" + port; }
    if (has_auth) { for (auto& s : segs) t += "/" + s; }
    else { if (abs) t += "/"; for (size_t i = 0; i < segs.size(); i++) { if (i) t += "/"; t += segs[i]; } }
    if (has_query) t += "?" + query;
    if (has_frag) t += "#" + frag;
    return t;
}

UriParts random_parts(Rng& r, const TextCfg& c) {
    UriParts p;
    p.has_scheme = r.chance(560); if (p.has_scheme) p.scheme = r.pick(kSchemes);
    p.has_auth = r.chance(450);
    if (p.has_auth) {
        p.has_user = r.chance(300); if (p.has_user) p.user = r.pick(kUser);
        p.host = pick_host(r);
        p.has_port = r.chance(300); if (p.has_port) p.port = r.pick(kPorts);
    }
    int nseg = r.chance(150) ? 0 : r.range(1, c.max_segs);
    for (int i = 0; i < nseg; i++) p.segs.push_back(r.pick(kSegs));
    if (!p.has_auth) {
        p.abs = nseg ? r.chance(420) : r.chance(100);
        // keep it parseable: no colon in the first relative segment without scheme, no "//" start without authority
        if (!p.has_scheme && !p.abs && nseg && p.segs[0].find(':') != std::string::npos) p.segs[0] = "a";
        if (p.abs && nseg > 1 && p.segs[0].empty()) p.segs[0] = "x";
        if (!p.abs && nseg > 1 && p.segs[0].empty()) p.segs[0] = "y";
    }
    p.has_query = r.chance(300); if (p.has_query) p.query = r.pick(kQF);
    p.has_frag = r.chance(280); if (p.has_frag) p.frag = r.pick(kQF);
    return p;
}

static std::string tweak(Rng& r, const std::string& s, const char* alphabet) {
    std::string t = s;
    size_t n = strlen(alphabet);
    if (t.empty()) { t += alphabet[r.below((uint32_t)n)]; return t; }
    size_t i = r.below((uint32_t)t.size());
    if (r.chance(500)) i = t.size() - 1;
    char c;
    do { c = alphabet[r.below((uint32_t)n)]; } while (c == t[i]);
    t[i] = c;
    return t;
}

UriParts edit_one(Rng& r, const UriParts& p0, std::string* what) {
    UriParts p = p0;
    for (int tries = 0; tries < 20; tries++) {
        int k = r.range(0, 14);
        switch (k) {
        case 14: {   // a component grown by exactly 256 (or 512, 1024) characters: lengths that agree modulo a narrow counter
            int n = r.pick(std::vector<int>{256, 256, 512, 1024});   // (not 65536: the instrumented build recurses once per character, and a
                                                                     //  behaviour-preserving change with larger frames overflowed the stack there - benign r2-1)
            std::string pad((size_t)n, 'a');
            int w = r.range(0, 5);
            if (w == 0 && p.has_auth) { if (!p.has_user) { p.has_user = true; p.user = "u"; } p.user += pad; *what = "userinfo+256k"; return p; }
            if (w == 1 && p.has_auth && !p.host.empty() && p.host[0] != '[') { p.host += pad; *what = "host+256k"; return p; }
            if (w == 2 && !p.segs.empty()) { p.segs[r.below((uint32_t)p.segs.size())] += pad; *what = "segment+256k"; return p; }
            if (w == 3) { p.has_query = true; p.query += pad; *what = "query+256k"; return p; }
            if (w == 4) { p.has_frag = true; p.frag += pad; *what = "fragment+256k"; return p; }
            if (w == 5 && p.has_scheme) { p.scheme += pad; *what = "scheme+256k"; return p; }
            break; }
        case 0: if (p.has_scheme) { p.scheme = tweak(r, p.scheme, "abcxyzABC"); *what = "scheme"; return p; } break;
        case 1: if (p.has_auth) { if (p.has_user && r.chance(300)) p.has_user = false; else { p.user = p.has_user ? tweak(r, p.user, "uvw:") : (r.chance(500) ? "" : "u"); p.has_user = true; } *what = "userinfo"; return p; } break;
        case 2: if (p.has_auth && !p.host.empty() && p.host[0] == '[') {   // IP literal: change a digit near the end or near the start
                    size_t e = p.host.rfind(']');
                    if (e != std::string::npos && e >= 2) { size_t i = r.chance(600) ? e - 1 : 1; char c = p.host[i]; if (isxdigit((unsigned char)c)) { p.host[i] = c == '1' ? '2' : '1'; *what = "host-ip-literal"; return p; } }
                } break;
        case 3: if (p.has_auth && !p.host.empty() && p.host[0] != '[') { p.host = tweak(r, p.host, "0123456789abh"); *what = "host"; return p; }
                if (p.has_auth && p.host.size() > 3 && p.host[0] == '[' && (p.host[1] == 'v' || p.host[1] == 'V') && p.host.find(':') == std::string::npos) { p.host = p.host.substr(1, p.host.size() - 2); *what = "host-kind-same-text"; return p; }
                break;
        case 4: if (p.has_auth && p.has_port && p.port == "1000000000" && r.chance(600)) { p.port = "5294967296"; *what = "port-plus-2^32"; return p; }
                if (p.has_auth && p.has_port && p.port == "80" && r.chance(200)) { p.port = r.chance(500) ? "080" : "0080"; *what = "port-leading-zero"; return p; }
                if (p.has_auth) { if (p.has_port && r.chance(300)) p.has_port = false; else { p.port = p.has_port ? tweak(r, p.port, "0123456789") : (r.chance(500) ? "" : "8"); p.has_port = true; } *what = "port"; return p; } break;
        case 5: if (!p.segs.empty()) { size_t i = r.below((uint32_t)p.segs.size()); p.segs[i] = tweak(r, p.segs[i], "abcdAB.%"); *what = "segment"; return p; } break;
        case 6: p.segs.push_back(r.chance(500) ? "" : "z"); *what = "segment-added"; return p;
        case 7: if (!p.segs.empty()) { p.segs.pop_back(); *what = "segment-removed"; return p; } break;
        case 8: if (!p.has_auth && !p.segs.empty()) { p.abs = !p.abs; *what = "absolute-flag"; return p; } break;
        case 9: if (p.has_query && r.chance(400)) p.has_query = false; else { p.query = p.has_query ? tweak(r, p.query, "abq=&%") : (r.chance(600) ? "" : "q"); p.has_query = true; } *what = "query"; return p;
        case 10: if (p.has_frag && r.chance(400)) p.has_frag = false; else { p.frag = p.has_frag ? tweak(r, p.frag, "abf%") : (r.chance(600) ? "" : "f"); p.has_frag = true; } *what = "fragment"; return p;
        case 11: *what = "identical"; return p;
        case 12: if (p.has_scheme) { for (auto& ch : p.scheme) if (isalpha((unsigned char)ch)) { ch = (char)(ch ^ 0x20); break; } *what = "scheme-case"; return p; } break;
        default: if (!p.segs.empty() && !p.segs.back().empty()) { p.segs.back() += r.chance(500) ? "x" : ".html"; *what = "segment-extended"; return p; } break;
        }
    }
    *what = "identical";
    return p;
}

std::string abs_uri_text(Rng& r, const TextCfg& c) {
    for (int i = 0; i < 8; i++) {
        std::string t = uri_text(r, c);
        size_t p = t.find(':');
        if (p != std::string::npos && p > 0 && t.find('/') > p && ((t[0] >= 'a' && t[0] <= 'z') || (t[0] >= 'A' && t[0] <= 'Z'))) return t;
    }
    TextCfg c2 = c; c2.mutate_per1024 = 0;
    return r.pick(kSchemes) + ":" + uri_text(r, c2).substr(0, 0) + "//h/a/b";
}

std::string related_text(Rng& r, const std::string& base, const TextCfg& c) {
    if (base.empty() || r.chance(250)) return uri_text(r, c);
    std::string t = base;
    int how = r.range(0, 5);
    size_t cut = t.find_first_of("?#");
    std::string tail = cut == std::string::npos ? "" : t.substr(cut);
    std::string head = cut == std::string::npos ? t : t.substr(0, cut);
    switch (how) {
    case 0: {  // replace last segment
        size_t sl = head.rfind('/');
        if (sl != std::string::npos) head = head.substr(0, sl + 1) + r.pick(kSegs);
        else head += "/" + r.pick(kSegs);
        break; }
    case 1: head += "/" + r.pick(kSegs); if (r.chance(400)) head += "/" + r.pick(kSegs); break;   // extend
    case 2: { size_t sl = head.rfind('/'); if (sl != std::string::npos && sl > 0) head = head.substr(0, sl); break; }   // parent
    case 3: {  // drop scheme -> relative reference with same rest
        size_t p = head.find(':');
        if (p != std::string::npos && head.find('/') > p) head = head.substr(p + 1);
        break; }
    case 4: {  // only path part
        size_t p = head.find("//");
        if (p != std::string::npos) { size_t sl = head.find('/', p + 2); head = sl == std::string::npos ? "" : head.substr(sl); }
        if (r.chance(500) && !head.empty() && head[0] == '/') head = head.substr(1);
        break; }
    default: {  // change port or userinfo
        size_t p = head.find("//");
        if (p != std::string::npos) head.insert(p + 2, r.chance(500) ? "u@" : "x:y@");
        break; }
    }
    if (r.chance(300)) tail = r.chance(500) ? "?" + r.pick(kQF) : "#" + r.pick(kQF);
    t = head + tail;
    if ((int)t.size() > c.max_len) t.resize((size_t)c.max_len);
    return t;
}

static const std::vector<std::string> kQParts = {"", "a", "b", "key", "v", " ", "+", "&", "=", "%", "\r", "\n", "\r\n", "a b", "a=b", "a&b", "%41", "%zz", "\x80", "\xff", "~", "x\ry", "\n\r", "-._", "/?:@", "\x01", "\x7f", "%0D%0A", "100%"};

std::string query_string(Rng& r, int max_items) {
    static const std::vector<std::string> parts = {"a", "b", "k", "v", "=", "&", "&&", "==", "+", "%20", "%41", "%0d", "%0A", "%0D%0A", "%", "%4", "%zz", "x", "", "&=", "=&", "%2b", "%26", "%3D"};
    std::string t;
    int n = r.range(0, max_items * 3);
    for (int i = 0; i < n; i++) t += r.pick(parts);
    return t;
}

void query_items(Rng& r, Op& mk, int max_items, int max_len) {
    int n = r.range(1, max_items);
    if (r.chance(8)) n = r.range(20, 48);   // rarely: many items
    mk.keys.clear(); mk.values.clear(); mk.has_value.clear();
    for (int i = 0; i < n; i++) {
        auto mkstr = [&]() {
            std::string s; int parts = r.range(0, 3);
            if (r.chance(12)) { int n = r.chance(200) ? r.pick(std::vector<int>{255, 256, 1023, 1024, 1025, 1400}) : r.range(180, 420); for (int k = 0; k < n; k++) s += (k % 97 == 96) ? ' ' : (char)('a' + k % 26);
                // line breaks sitting on the block boundaries a chunked implementation would use
                if (r.chance(500)) { static const int at[] = {15, 16, 31, 32, 63, 64, 127, 128, 255, 256, 511, 512, 1023, 1024}; int nb = r.range(1, 3); for (int b = 0; b < nb; b++) { int pos = at[r.below(14)] - (int)r.below(2); if (pos + 1 < (int)s.size() && pos >= 0) { s[(size_t)pos] = '\r'; if (r.chance(700)) s[(size_t)pos + 1] = '\n'; } } }
                return s; }   // rarely: long, mostly unescaped text
            for (int k = 0; k < parts; k++) {
                if (r.chance(150)) s += (char)r.range(1, 255); else s += r.pick(kQParts);
            }
            if ((int)s.size() > max_len) s.resize((size_t)max_len);
            return s;
        };
        mk.keys.push_back(mkstr());
        bool hv = r.chance(700);
        mk.has_value.push_back(hv ? 1 : 0);
        mk.values.push_back(hv ? mkstr() : std::string());
    }
}

std::vector<Op> history(Rng& r, const HistCfg& c) {
    std::vector<Op> ops;
    int n = r.range(c.min_ops, c.max_ops);
    std::vector<int> valid;          // slots that probably hold a URI
    std::vector<std::string> text_of((size_t)c.nslots);
    std::vector<char> absolute((size_t)c.nslots, 0);
    auto add_parse = [&](int slot, bool want_abs, const std::string& rel_to) {
        Op o; o.kind = OP_PARSE; o.a = slot;
        if (!rel_to.empty() && r.chance(600)) o.text = related_text(r, rel_to, c.text);
        else o.text = want_abs ? abs_uri_text(r, c.text) : uri_text(r, c.text);
        o.entry = c.entries ? r.range(0, 5) : 5;
        o.mgr = c.nmgrs > 1 ? r.range(0, c.nmgrs - 1) : 0;
        o.placement = r.range(0, 1); o.trail = r.range(0, 16);
        if (c.refree && r.chance(200)) o.refree = r.range(1, 3);
        if (c.entries && r.chance(80)) o.opt = 1;   // no error-position out-parameter
        ops.push_back(o);
        text_of[(size_t)slot] = o.text;
        size_t p = o.text.find(':');
        absolute[(size_t)slot] = (p != std::string::npos && p > 0 && o.text.find_first_of("/?#") > p) ? 1 : 0;
        if (std::find(valid.begin(), valid.end(), slot) == valid.end()) valid.push_back(slot);
    };
    auto pick_valid = [&](int avoid1, int avoid2, bool want_abs) -> int {
        std::vector<int> cand;
        for (int s : valid) if (s != avoid1 && s != avoid2 && (!want_abs || absolute[(size_t)s] || r.chance(100))) cand.push_back(s);
        if (cand.empty()) for (int s : valid) if (s != avoid1 && s != avoid2) cand.push_back(s);
        if (cand.empty()) return -1;
        return r.pick(cand);
    };
    int initial = r.range(1, 3);
    for (int i = 0; i < initial && (int)ops.size() < n; i++) add_parse(i, i == 0 ? r.chance(800) : r.chance(400), i ? text_of[0] : std::string());
    int total_w = c.w_parse + c.w_addbase + c.w_removebase + c.w_normalize + c.w_makeowner + c.w_free + c.w_tostring + c.w_equals + c.w_maskreq;
    while ((int)ops.size() < n) {
        int x = (int)r.below((uint32_t)total_w);
        Op o;
        if ((x -= c.w_parse) < 0) {
            int slot = r.range(0, c.nslots - 1);
            int rel = pick_valid(-1, -1, false);
            add_parse(slot, r.chance(500), rel >= 0 ? text_of[(size_t)rel] : std::string());
            continue;
        } else if ((x -= c.w_addbase) < 0) {
            int base = pick_valid(-1, -1, true), rel = pick_valid(-1, -1, false);
            if (base < 0 || rel < 0) continue;
            int dst = r.range(0, c.nslots - 1);
            if (dst == base || dst == rel) { dst = (dst + 1) % c.nslots; if (dst == base || dst == rel) dst = (dst + 1) % c.nslots; }
            o.kind = OP_ADDBASE; o.a = dst; o.b = rel; o.c = base; o.opt = r.chance(300) ? 1 : 0; o.entry = c.entries ? r.range(0, 2) : 2;
            o.mgr = c.nmgrs > 1 ? r.range(0, c.nmgrs - 1) : 0;
            if (c.refree && r.chance(150)) o.refree = r.range(1, 2);
            absolute[(size_t)dst] = 1; text_of[(size_t)dst] = text_of[(size_t)base];
            if (std::find(valid.begin(), valid.end(), dst) == valid.end()) valid.push_back(dst);
        } else if ((x -= c.w_removebase) < 0) {
            int base = pick_valid(-1, -1, true), src = pick_valid(-1, -1, true);
            if (base < 0 || src < 0) continue;
            int dst = r.range(0, c.nslots - 1);
            if (dst == base || dst == src) { dst = (dst + 1) % c.nslots; if (dst == base || dst == src) dst = (dst + 1) % c.nslots; }
            o.kind = OP_REMOVEBASE; o.a = dst; o.b = src; o.c = base; o.opt = r.chance(350) ? 1 : 0; if (r.chance(60)) o.opt = r.pick(std::vector<int>{2, -1, 255, 256}); o.entry = c.entries ? r.range(0, 1) : 1;
            o.mgr = c.nmgrs > 1 ? r.range(0, c.nmgrs - 1) : 0;
            absolute[(size_t)dst] = 0; text_of[(size_t)dst] = text_of[(size_t)src];
            if (std::find(valid.begin(), valid.end(), dst) == valid.end()) valid.push_back(dst);
        } else if ((x -= c.w_normalize) < 0) {
            int s = pick_valid(-1, -1, false);
            if (s < 0) continue;
            o.kind = OP_NORMALIZE; o.a = s; o.entry = c.entries ? r.range(0, 2) : 2;
            o.opt = r.chance(450) ? 63 : (r.chance(100) ? 0 : r.range(1, 63));
            if (r.chance(40)) o.opt = r.pick(std::vector<int>{127, 255, 0xFFFF, 64 | 63, 0x7FFFFFFF});   // "all bits": callers that pass more than today's six
        } else if ((x -= c.w_makeowner) < 0) {
            int s = pick_valid(-1, -1, false);
            if (s < 0) continue;
            o.kind = OP_MAKEOWNER; o.a = s; o.entry = c.entries ? r.range(0, 1) : 1;
        } else if ((x -= c.w_free) < 0) {
            int s = pick_valid(-1, -1, false);
            if (s < 0) continue;
            o.kind = OP_FREE; o.a = s; o.entry = c.entries ? r.range(0, 1) : 1;
            if (c.refree && r.chance(400)) o.refree = r.range(1, 3);
            valid.erase(std::find(valid.begin(), valid.end(), s));
        } else if ((x -= c.w_tostring) < 0) {
            int s = pick_valid(-1, -1, false);
            if (s < 0) continue;
            o.kind = OP_TOSTRING; o.a = s; o.cap = CAP_AMPLE;
        } else if ((x -= c.w_equals) < 0) {
            int s = pick_valid(-1, -1, false), t = pick_valid(-1, -1, false);
            if (s < 0 || t < 0) continue;
            o.kind = OP_EQUALS; o.a = s; o.b = t;
        } else {
            int s = pick_valid(-1, -1, false);
            if (s < 0) continue;
            o.kind = OP_MASKREQ; o.a = s; o.entry = r.range(0, 1);
        }
        ops.push_back(o);
    }
    return ops;
}

Plan base_plan(const char* prop, unsigned long long vseed, unsigned long long index) {
    Plan p;
    p.property = prop; p.verif_seed = vseed; p.run_index = index;
    unsigned long long tag = 0; for (const char* c = prop; *c; c++) tag = tag * 131 + (unsigned char)*c;
    p.run_seed = mix64(mix64(vseed, tag), index);
    Rng r(p.run_seed ^ 0x5eed);
    p.chr = r.chance(400) ? 1 : 0;
    p.junk = r.next() | 1;
    p.reuse = r.chance(512) ? REUSE_LIFO : REUSE_NEVER;
    p.redzone = r.chance(500) ? 32 : 64;
    { Rng r2(p.run_seed ^ 0x10ca1e); p.locale = r2.chance(200) ? 1 : 0; }   // own stream: older plans keep their other choices
    p.mgrs.push_back(MK_LIBC); p.mgr_mask.push_back(0);
    return p;
}

}}  // namespace
