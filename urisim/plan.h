// Plan = fully explicit description of one simulated run (also the replay-file format).
#pragma once
#include "json.h"
#include "rt.h"
#include <string>
#include <vector>

namespace sim {

enum OpKind {
    OP_PARSE = 0, OP_FREE, OP_ADDBASE, OP_REMOVEBASE, OP_NORMALIZE, OP_MAKEOWNER, OP_TOSTRING, OP_EQUALS, OP_MASKREQ,
    OP_DISSECT, OP_COMPOSE, OP_COMPOSE_MALLOC, OP_FREEQL, OP_MKLIST, OP_LOSE, OP_ESCAPE, OP_FILENAME,
    // allocator history ops (C15)
    OP_A_MALLOC, OP_A_CALLOC, OP_A_REALLOC, OP_A_REALLOCARRAY, OP_A_FREE, OP_A_SELFTEST,
    OP_KIND_COUNT
};
const char* opkind_name(int k);
int opkind_from(const std::string& s);

enum { CAP_AMPLE = -1000, CAP_ALL = -1001 };
enum { K_ALL = -1 };

// manager kinds
enum MgrKind { MK_LIBC = 0 /*NULL manager*/, MK_SIM = 1 /*5-function custom*/, MK_COMPLETED = 2 /*uriCompleteMemoryManager over malloc/free backend*/, MK_INCOMPLETE = 3 };

struct Op {
    int kind = OP_PARSE;
    int a = -1, b = -1, c = -1;   // slots: dst/obj, operand 1, operand 2 (uri slots or list slots depending on kind)
    int opt = 0;                  // options / mask / flags / mode
    int entry = 0;                // entry point variant
    int mgr = 0;                  // manager index into plan.mgrs
    std::string text;             // bytes 1..255 (each byte one character, also for the wchar_t build)
    int placement = 0;            // parse/dissect: 0 exact tail, 1 mid-buffer with trailing continuation, 2 NUL-terminated tail
    int window = -1;              // parse: parse only the first `window` characters of text (-1: all) - C03 split points
    int trail = 0;                // which adversarial continuation follows the window (placement 1)
    int cap = CAP_AMPLE;          // tostring / compose capacity
    int refree = 0;               // extra free calls after a free / failure
    // faults attached to this op
    int fail_k = 0;               // 0 none, K_ALL enumerate, else 1-based request index
    int fail_mode = 0;            // 0 once, 1 from k on, 2 set
    unsigned long long fail_set = 0;
    int lose = 0;                 // after this op: source_loss for object `a` (1) - C12
    int brk = 0;                  // for this one call the manager it is given has these function pointers cleared IN PLACE (bit 0 malloc .. 4 free): the
                                  // same table object that was accepted before must now be rejected - C13
    int keep = 0;                 // in-place op: if an injected failure makes it fail, the caller keeps using the object (no cleanup) - C11 pool
    int task = 0;                 // C20: task that runs this op (0 = main/setup phase)
    // query list model for OP_MKLIST: keys/values; value "\x01NULL" marker handled via has_value
    std::vector<std::string> keys, values; std::vector<int> has_value;
    // allocator ops: sizes
    unsigned long long n1 = 0, n2 = 0;
    J to_json() const;
    static Op from_json(const J& j);
    std::string brief() const;
};

struct Plan {
    std::string property;
    unsigned long long verif_seed = 0, run_index = 0, run_seed = 0;
    int chr = 0;                   // 0 = char, 1 = wchar_t
    std::vector<int> mgrs;         // manager kinds, index 0.. ; ops refer by index
    std::vector<int> mgr_mask;     // for MK_INCOMPLETE: bitmask of present function pointers
    int reuse = 0; unsigned long long junk = 0; int redzone = 32;
    int locale = 0;                // process locale while the run executes: 0 "C", 1 "C.UTF-8" (LC_ALL) - what a deployment's setlocale() does to <ctype.h>/<wctype.h>
    std::vector<Op> ops;
    // C20 schedule
    int sched_policy = 0;          // 0 none(sequential), 1 rr-at-alloc, 2 pct, 3 random walk
    unsigned long long sched_seed = 0; int sched_param = 0;
    std::vector<int> sched_trace;  // explicit trace (replay): sequence of (step delta, task) pairs flattened
    int target = -1;               // engine-specific: index of target op
    J extra;                       // engine-specific knobs
    J to_json() const;
    static bool from_json(const J& j, Plan& p);
    std::string brief() const;
};

std::string hexesc(const std::string& s);   // printable rendering

}  // namespace sim
