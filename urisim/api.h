// Character-type traits mapping to the ...A / ...W public API of uriparser.
#pragma once
#include <uriparser/Uri.h>
#include <uriparser/UriIp4.h>
#include <string>
#include <vector>

namespace sim {

template <class C> struct Api;

#define URISIM_API(CH, SUF)                                                                                                 \
    template <> struct Api<CH> {                                                                                            \
        typedef CH Char;                                                                                                    \
        typedef UriUri##SUF Uri; typedef UriPathSegment##SUF Seg; typedef UriParserState##SUF State;                        \
        typedef UriQueryList##SUF QL; typedef UriTextRange##SUF Range; typedef UriHostData##SUF HostData;                   \
        static int ParseUriEx(State* s, const CH* f, const CH* l) { return uriParseUriEx##SUF(s, f, l); }                   \
        static int ParseUri(State* s, const CH* t) { return uriParseUri##SUF(s, t); }                                       \
        static int ParseSingleUri(Uri* u, const CH* t, const CH** e) { return uriParseSingleUri##SUF(u, t, e); }            \
        static int ParseSingleUriEx(Uri* u, const CH* f, const CH* l, const CH** e) { return uriParseSingleUriEx##SUF(u, f, l, e); } \
        static int ParseSingleUriExMm(Uri* u, const CH* f, const CH* l, const CH** e, UriMemoryManager* m) { return uriParseSingleUriExMm##SUF(u, f, l, e, m); } \
        static void FreeUriMembers(Uri* u) { uriFreeUriMembers##SUF(u); }                                                   \
        static int FreeUriMembersMm(Uri* u, UriMemoryManager* m) { return uriFreeUriMembersMm##SUF(u, m); }                 \
        static int AddBaseUri(Uri* d, const Uri* r, const Uri* b) { return uriAddBaseUri##SUF(d, r, b); }                   \
        static int AddBaseUriEx(Uri* d, const Uri* r, const Uri* b, UriResolutionOptions o) { return uriAddBaseUriEx##SUF(d, r, b, o); } \
        static int AddBaseUriExMm(Uri* d, const Uri* r, const Uri* b, UriResolutionOptions o, UriMemoryManager* m) { return uriAddBaseUriExMm##SUF(d, r, b, o, m); } \
        static int RemoveBaseUri(Uri* d, const Uri* s, const Uri* b, UriBool dr) { return uriRemoveBaseUri##SUF(d, s, b, dr); } \
        static int RemoveBaseUriMm(Uri* d, const Uri* s, const Uri* b, UriBool dr, UriMemoryManager* m) { return uriRemoveBaseUriMm##SUF(d, s, b, dr, m); } \
        static UriBool EqualsUri(const Uri* a, const Uri* b) { return uriEqualsUri##SUF(a, b); }                            \
        static int ToStringCharsRequired(const Uri* u, int* n) { return uriToStringCharsRequired##SUF(u, n); }              \
        static int ToString(CH* d, const Uri* u, int max, int* w) { return uriToString##SUF(d, u, max, w); }                \
        static unsigned NormalizeSyntaxMaskRequired(const Uri* u) { return uriNormalizeSyntaxMaskRequired##SUF(u); }        \
        static int NormalizeSyntaxMaskRequiredEx(const Uri* u, unsigned* m) { return uriNormalizeSyntaxMaskRequiredEx##SUF(u, m); } \
        static int NormalizeSyntax(Uri* u) { return uriNormalizeSyntax##SUF(u); }                                           \
        static int NormalizeSyntaxEx(Uri* u, unsigned m) { return uriNormalizeSyntaxEx##SUF(u, m); }                        \
        static int NormalizeSyntaxExMm(Uri* u, unsigned m, UriMemoryManager* mm) { return uriNormalizeSyntaxExMm##SUF(u, m, mm); } \
        static int MakeOwner(Uri* u) { return uriMakeOwner##SUF(u); }                                                       \
        static int MakeOwnerMm(Uri* u, UriMemoryManager* m) { return uriMakeOwnerMm##SUF(u, m); }                           \
        static int ComposeQueryCharsRequired(const QL* q, int* n) { return uriComposeQueryCharsRequired##SUF(q, n); }       \
        static int ComposeQueryCharsRequiredEx(const QL* q, int* n, UriBool sp, UriBool nb) { return uriComposeQueryCharsRequiredEx##SUF(q, n, sp, nb); } \
        static int ComposeQuery(CH* d, const QL* q, int max, int* w) { return uriComposeQuery##SUF(d, q, max, w); }         \
        static int ComposeQueryEx(CH* d, const QL* q, int max, int* w, UriBool sp, UriBool nb) { return uriComposeQueryEx##SUF(d, q, max, w, sp, nb); } \
        static int ComposeQueryMalloc(CH** d, const QL* q) { return uriComposeQueryMalloc##SUF(d, q); }                     \
        static int ComposeQueryMallocEx(CH** d, const QL* q, UriBool sp, UriBool nb) { return uriComposeQueryMallocEx##SUF(d, q, sp, nb); } \
        static int ComposeQueryMallocExMm(CH** d, const QL* q, UriBool sp, UriBool nb, UriMemoryManager* m) { return uriComposeQueryMallocExMm##SUF(d, q, sp, nb, m); } \
        static int DissectQueryMalloc(QL** d, int* n, const CH* f, const CH* l) { return uriDissectQueryMalloc##SUF(d, n, f, l); } \
        static int DissectQueryMallocEx(QL** d, int* n, const CH* f, const CH* l, UriBool p, UriBreakConversion b) { return uriDissectQueryMallocEx##SUF(d, n, f, l, p, b); } \
        static int DissectQueryMallocExMm(QL** d, int* n, const CH* f, const CH* l, UriBool p, UriBreakConversion b, UriMemoryManager* m) { return uriDissectQueryMallocExMm##SUF(d, n, f, l, p, b, m); } \
        static void FreeQueryList(QL* q) { uriFreeQueryList##SUF(q); }                                                      \
        static int FreeQueryListMm(QL* q, UriMemoryManager* m) { return uriFreeQueryListMm##SUF(q, m); }                    \
        static CH* EscapeEx(const CH* f, const CH* l, CH* o, UriBool sp, UriBool nb) { return uriEscapeEx##SUF(f, l, o, sp, nb); } \
        static CH* Escape(const CH* in, CH* o, UriBool sp, UriBool nb) { return uriEscape##SUF(in, o, sp, nb); }            \
        static const CH* UnescapeInPlaceEx(CH* io, UriBool p, UriBreakConversion b) { return uriUnescapeInPlaceEx##SUF(io, p, b); } \
        static const CH* UnescapeInPlace(CH* io) { return uriUnescapeInPlace##SUF(io); }                                    \
        static int UnixFilenameToUriString(const CH* f, CH* u) { return uriUnixFilenameToUriString##SUF(f, u); }            \
        static int WindowsFilenameToUriString(const CH* f, CH* u) { return uriWindowsFilenameToUriString##SUF(f, u); }      \
        static int UriStringToUnixFilename(const CH* u, CH* f) { return uriUriStringToUnixFilename##SUF(u, f); }            \
        static int UriStringToWindowsFilename(const CH* u, CH* f) { return uriUriStringToWindowsFilename##SUF(u, f); }      \
        static int ParseIpFourAddress(unsigned char* o, const CH* f, const CH* l) { return uriParseIpFourAddress##SUF(o, f, l); } \
    };

URISIM_API(char, A)
URISIM_API(wchar_t, W)
#undef URISIM_API

}  // namespace sim
