// urisim runtime: seeded PRNG, fixed-address arenas with per-byte permission shadow,
// simulated heap with ledger, access monitor (sancov load/store callbacks + libc shims),
// violation recording, event hash.  See /verif/DESIGN.md section 3.
#pragma once
#include <cstdint>
#include <cstddef>
#include <cstring>
#include <string>
#include <vector>
#include <csetjmp>
#include <ucontext.h>

namespace sim {

// ---------------------------------------------------------------- PRNG (splitmix64)
struct Rng {
    uint64_t s;
    explicit Rng(uint64_t seed = 0) : s(seed) {}
    uint64_t next() {
        uint64_t z = (s += 0x9E3779B97F4A7C15ull);
        z = (z ^ (z >> 30)) * 0xBF58476D1CE4E5B9ull;
        z = (z ^ (z >> 27)) * 0x94D049BB133111EBull;
        return z ^ (z >> 31);
    }
    // uniform in [0,n), n>0 (own range reduction: multiply-shift, deterministic everywhere)
    uint32_t below(uint32_t n) { return (uint32_t)(((next() >> 32) * (uint64_t)n) >> 32); }
    int range(int lo, int hi) { return lo + (int)below((uint32_t)(hi - lo + 1)); }  // inclusive
    bool chance(uint32_t per1024) { return below(1024) < per1024; }
    template <class T> const T& pick(const std::vector<T>& v) { return v[below((uint32_t)v.size())]; }
};
inline uint64_t mix64(uint64_t a, uint64_t b) {
    Rng r(a ^ (b * 0xD6E8FEB86659FD93ull));
    r.next();
    return r.next() ^ b;
}

// ---------------------------------------------------------------- arenas
enum ArenaId { A_TEXT = 0, A_OBJ = 1, A_HEAP = 2, A_COUNT = 3 };
struct Arena {
    uintptr_t base = 0;
    size_t size = 0;
    size_t used = 0;       // bump pointer
    size_t hwm = 0;        // high water mark since last full reset (for shadow clearing)
    uint8_t* shadow = nullptr;   // per-byte permission
    uint16_t* race = nullptr;    // per-byte race shadow (C20): low 8 bits reader mask, high 8: writer+1
};
extern Arena g_arena[A_COUNT];

// permission byte: bit0 R, bit1 W, bits 2..4 reason code when permission is missing
enum : uint8_t { P_R = 1, P_W = 2, P_RW = 3 };
enum Reason : uint8_t {
    RS_UNALLOC = 0, RS_REDZONE = 1, RS_FREED = 2, RS_DEAD_SOURCE = 3, RS_OUT_OF_WINDOW = 4,
    RS_CONST_ARG = 5, RS_INPUT_TEXT = 6, RS_NOT_DECLARED = 7
};
inline uint8_t perm(uint8_t rw, Reason r) { return (uint8_t)(rw | (r << 2)); }

void arenas_init();              // mmap everything once per process
void arenas_reset();             // per run
void* arena_alloc(ArenaId a, size_t bytes, size_t align, uint8_t pm);   // bump
void set_perm(const void* p, size_t bytes, uint8_t pm);
uint8_t get_perm(const void* p);
bool in_arena(const void* p, ArenaId* which = nullptr);
// arena-relative printable address (never log raw addresses)
std::string addr_name(const void* p);

// ---------------------------------------------------------------- violations
enum VKind {
    V_NONE = 0,
    V_CRASH,               // signal inside a library call
    V_READ_OUT_OF_WINDOW,  // load outside the declared input window (C03)
    V_READ_DEAD_SOURCE,    // load from a released/overwritten source buffer (C12)
    V_STORE_INPUT_TEXT,    // store into caller's input text (C03/C12)
    V_STORE_CONST_ARG,     // store into a read-only argument (C12/C14/C20/C11)
    V_CONST_ARG_CHANGED,   // snapshot mismatch after call
    V_STORE_STATIC,        // store into image data/bss (C20)
    V_WILD_ACCESS,         // access to memory that is none of ours
    V_HEAP_OVERFLOW,       // access into a red zone / beyond block
    V_TOUCH_FREED,         // access to a freed block
    V_STORE_BEYOND_CAP,    // store outside dest[0..cap) (C05/C17)
    V_DOUBLE_FREE, V_FOREIGN_FREE, V_BAD_FREE,   // ledger
    V_BYPASS,              // libc allocator used while a custom manager was supplied
    V_LEAK_AFTER_RELEASE, V_LEAK_AT_END, V_LEAK_AFTER_FAILURE,
    V_ALLOC_BEFORE_REJECT, // incomplete manager: something happened before rejection
    V_WRONG_RC,            // return code contract
    V_NO_RECOVERY,         // after faults stop the same call does not give the fault-free answer
    V_RESULT_DIFFERS,      // digest differs from reference (environment/solo/...)
    V_ROUNDTRIP,           // C07 re-read differs
    V_STRUCTURE,           // C07 structural invariant
    V_EQUALS,              // C11
    V_OWNER_CHANGED,       // C12 digest changed by source loss / makeowner
    V_SIZE_CONTRACT,       // C05/C17 chars required / written / terminator contract
    V_QUERY_ROUNDTRIP,     // C17
    V_QUERY_CHARS,         // C17 illegal char in composed text
    V_INTMAX,              // C17 wrapped figure
    V_ALLOC_MODEL,         // C15 model disagreement
    V_DATA_RACE,           // C20
    V_TRAP,                // called a backend slot that must never be called
    V_HARNESS,             // internal error of the harness (exit 2)
    V_KIND_COUNT
};
const char* vkind_name(VKind k);
struct Violation {
    VKind kind = V_NONE;
    int op = -1;            // op index in plan (or -1)
    std::string detail;
};

// ---------------------------------------------------------------- simulated heap
enum ReusePolicy { REUSE_NEVER = 0, REUSE_LIFO = 1 };
struct Block {
    uint32_t off;      // offset of user pointer in heap arena
    uint32_t size;     // user size in bytes
    uint32_t serial;
    int16_t mgr;       // owning manager id
    int16_t tag;       // owner tag (slot the op was building), -1 none
    int32_t op;        // op index that requested it
    int32_t req;       // request index within that call
    uint8_t live;
    uint8_t task;
};
struct HeapStats { uint64_t mallocs = 0, callocs = 0, frees = 0, free_null = 0, failed = 0, reused = 0; };

struct FaultPlan {       // allocation failure plan for the *current call*
    int k = 0;           // 0 = none; 1-based request index
    int mode = 0;        // 0 once, 1 from k on, 2 set (k plus bits of set shifted)
    uint64_t set = 0;    // mode 2: bit i => request k+1+i fails too
};

// per library-call context (one per task)
struct CallCtx {
    bool in_call = false;
    int op = -1;            // op index
    int tag = -1;           // owner tag for blocks allocated during this call
    int expect_mgr = -1;    // manager id the call was given; 0 = libc (NULL manager); -1 = any
    int req_count = 0;      // allocation requests seen during this call
    int free_count = 0;
    unsigned long long released_total = 0;   // blocks actually released by calls of this context (never reset; callers take differences)
    int fired = 0;          // injected failures that fired
    unsigned long long steps = 0;   // edges executed by the current library call (step budget)
    FaultPlan fault;
    sigjmp_buf jmp;
    bool jmp_set = false;
    int task = 0;
    uintptr_t stack_lo = 0, stack_hi = 0;
    int saved_errno = 0;
};

struct Global {
    // config per run
    ReusePolicy reuse = REUSE_NEVER;
    uint64_t junk_seed = 0;
    int redzone = 32;
    bool align8 = false;           // user pointers at 8 (mod 16): what a tracking allocator with an 8-byte header of its own hands out
    bool allow_huge = false;       // set by the C15 engine around one malloc: requests up to 6 GiB are granted from a sparse mapping
    // state
    std::vector<Block> blocks;
    std::vector<uint32_t> free_lists[64];  // by size class, indices into blocks (lifo reuse)
    HeapStats hs;
    uint32_t serial = 0;
    int live_blocks = 0;
    std::vector<Violation> violations;
    bool abort_run = false;        // a fail-stop violation happened
    uint64_t ev_hash = 1469598103934665603ull;
    uint64_t ev_count = 0;
    bool trace = false;            // print events to stderr (replay)
    std::vector<std::string>* trace_sink = nullptr;
    CallCtx* cur = nullptr;        // current call context
    CallCtx main_ctx;
    // monitor
    bool monitor = true;
    uint64_t loads = 0, stores = 0, edges = 0;
    // writable-ok extra windows (declared outputs outside arenas are not used)
    // concurrency
    bool conc = false;             // concurrent phase active: race shadow on
    void (*yield_hook)(int why) = nullptr;   // scheduler hook, called at yield points
    // giant readable region (C17 INT_MAX clause)
    uintptr_t giant_lo = 0, giant_hi = 0;
    // control-flow edges one library call may execute before it counts as "does not return" (raised for the giant inputs of C17,
    // where any linear-time algorithm legitimately needs billions of steps)
    unsigned long long step_budget = 30000000ull;
    unsigned long long load_faults = 0;    // load violations recorded without ending the run
};
extern Global g;
// coverage state lives in plain zero-initialised statics: the sancov constructors run before g's constructor
extern sigjmp_buf g_run_jmp; extern bool g_run_jmp_set; extern bool g_run_abandoned;   // abandoned: the simulator ran out of arena space   // whole-run guard: a fault in harness code that trusts library results
extern uint8_t* g_guard_hit; extern uint32_t g_n_guards;
extern const uintptr_t* g_pcs_beg; extern const uintptr_t* g_pcs_end;   // sancov pc-table: (pc, flags) per guard

void run_reset(uint64_t junk_seed, ReusePolicy reuse, int redzone);
void violate(VKind k, const std::string& detail, bool failstop);
void event(const char* fmt, ...) __attribute__((format(printf, 1, 2)));

// heap API (mgr id: 0 = libc / NULL manager, >=1 custom)
void* heap_malloc(int mgr, size_t size, bool zero, const char* what);
void heap_free(int mgr, void* p);
Block* heap_find(const void* p);            // exact start
Block* heap_find_containing(const void* p); // slow
bool heap_redzones_intact(const Block& b);
int heap_check_all_redzones();
struct HugeBlock { uintptr_t addr; size_t size; uint32_t serial; int mgr; bool live; };
extern std::vector<HugeBlock> g_huge;
HugeBlock* huge_find(const void* p, bool containing);
size_t heap_usable(const void* p);          // bytes from p to the end of the live block that contains p (0 if none)
int heap_live_count(int mgr = -1, int tag = -1, int op = -1);
std::string heap_live_desc(int mgr = -1, int tag = -1, int op = -1);
void heap_retag(int from_tag, int to_tag);

// ---------------------------------------------------------------- library call guard
// Usage:  LIBCALL(ctx, { rc = uriFoo(...); })  -> returns true if completed, false if aborted (crash / fail-stop)
void call_begin(int op, int tag, int expect_mgr, const FaultPlan& f);
void call_end();
void install_signal_handlers();
extern "C" void urisim_abort_call();   // fail-stop: longjmp out of the library call

// Uninitialised locals of the library must not inherit what earlier calls (or earlier runs in the same worker process) left on the
// stack: the region the call is about to use is filled with the run's junk byte first. One seed stays one execution, and a read of
// an unset local sees junk instead of a plausible stale value.
void poison_stack_shallow();              // 1 KiB below the caller: before every library call
void poison_stack_deep(size_t bytes);     // once per run / per task start

#define LIBCALL_RUN(stmt_block, completed_var)                          \
    do {                                                                \
        sim::CallCtx* c__ = sim::g.cur;                                 \
        c__->jmp_set = true;                                            \
        sim::poison_stack_shallow();                                    \
        if (sigsetjmp(c__->jmp, 1) == 0) {                              \
            c__->in_call = true;                                        \
            stmt_block;                                                 \
            c__->in_call = false;                                       \
            completed_var = true;                                       \
        } else {                                                        \
            c__->in_call = false;                                       \
            completed_var = false;                                      \
        }                                                               \
        c__->jmp_set = false;                                           \
    } while (0)

// access check used by harness-visible shims too
void check_access(uintptr_t a, size_t n, bool store);

// coverage
uint32_t coverage_hit_count();
uint32_t coverage_total();
void coverage_merge_into(std::vector<uint8_t>& acc);

// image segments
void image_init();

// hashing helper
inline uint64_t fnv1a(const void* d, size_t n, uint64_t h = 1469598103934665603ull) {
    const uint8_t* p = (const uint8_t*)d;
    for (size_t i = 0; i < n; i++) { h ^= p[i]; h *= 1099511628211ull; }
    return h;
}
inline uint64_t fnv1a(const std::string& s, uint64_t h = 1469598103934665603ull) { return fnv1a(s.data(), s.size(), h); }

}  // namespace sim
