#include "plan.h"

namespace sim {

static const char* kOpNames[OP_KIND_COUNT] = {
    "parse", "free", "addbase", "removebase", "normalize", "makeowner", "tostring", "equals", "maskreq",
    "dissect", "compose", "compose_malloc", "freeql", "mklist", "lose", "escape", "filename",
    "a_malloc", "a_calloc", "a_realloc", "a_reallocarray", "a_free", "a_selftest"};

const char* opkind_name(int k) { return (k >= 0 && k < OP_KIND_COUNT) ? kOpNames[k] : "?"; }
int opkind_from(const std::string& s) { for (int i = 0; i < OP_KIND_COUNT; i++) if (s == kOpNames[i]) return i; return -1; }

std::string hexesc(const std::string& s) {
    std::string o;
    for (unsigned char c : s) {
        if (c >= 0x20 && c < 0x7f && c != '\\') o += (char)c;
        else { char b[8]; snprintf(b, sizeof b, "\\x%02x", c); o += b; }
    }
    return o;
}

J Op::to_json() const {
    J j = J::obj();
    j.set("op", opkind_name(kind));
    if (a >= 0) j.set("a", a);
    if (b >= 0) j.set("b", b);
    if (c >= 0) j.set("c", c);
    if (opt) j.set("opt", opt);
    if (entry) j.set("entry", entry);
    if (mgr) j.set("mgr", mgr);
    if (!text.empty() || kind == OP_PARSE || kind == OP_DISSECT) j.set("text", text);
    if (placement) j.set("placement", placement);
    if (window >= 0) j.set("window", window);
    if (trail) j.set("trail", trail);
    if (cap != CAP_AMPLE) j.set("cap", cap == CAP_ALL ? J("all") : J(cap));
    if (refree) j.set("refree", refree);
    if (fail_k) { j.set("fail_k", fail_k == K_ALL ? J("all") : J(fail_k)); j.set("fail_mode", fail_mode); if (fail_mode == 2) j.set("fail_set", fail_set); }
    if (lose) j.set("lose", lose);
    if (keep) j.set("keep", keep);
    if (brk) j.set("brk", brk);
    if (task) j.set("task", task);
    if (!keys.empty()) {
        J items = J::arr();
        for (size_t i = 0; i < keys.size(); i++) {
            J it = J::obj(); it.set("k", keys[i]);
            if (has_value[i]) it.set("v", values[i]); else it.set("v", J());
            items.push(it);
        }
        j.set("items", items);
    }
    if (n1) j.set("n1", n1);
    if (n2) j.set("n2", n2);
    return j;
}

Op Op::from_json(const J& j) {
    Op o;
    o.kind = opkind_from(j.gets("op"));
    o.a = (int)j.geti("a", -1); o.b = (int)j.geti("b", -1); o.c = (int)j.geti("c", -1);
    o.opt = (int)j.geti("opt"); o.entry = (int)j.geti("entry"); o.mgr = (int)j.geti("mgr");
    o.text = j.gets("text"); o.placement = (int)j.geti("placement"); o.window = (int)j.geti("window", -1); o.trail = (int)j.geti("trail");
    if (const J* c = j.get("cap")) o.cap = c->t == J::STR ? CAP_ALL : (int)c->i;
    o.refree = (int)j.geti("refree");
    if (const J* k = j.get("fail_k")) o.fail_k = k->t == J::STR ? K_ALL : (int)k->i;
    o.fail_mode = (int)j.geti("fail_mode"); o.fail_set = (unsigned long long)j.geti("fail_set");
    o.lose = (int)j.geti("lose"); o.keep = (int)j.geti("keep"); o.brk = (int)j.geti("brk"); o.task = (int)j.geti("task");
    if (const J* it = j.get("items")) for (auto& e : it->a) {
        o.keys.push_back(e.gets("k"));
        const J* v = e.get("v");
        if (v && v->t == J::STR) { o.values.push_back(v->s); o.has_value.push_back(1); } else { o.values.push_back(""); o.has_value.push_back(0); }
    }
    o.n1 = (unsigned long long)j.geti("n1"); o.n2 = (unsigned long long)j.geti("n2");
    return o;
}

std::string Op::brief() const {
    char buf[256];
    std::string s = opkind_name(kind);
    switch (kind) {
    case OP_PARSE: snprintf(buf, sizeof buf, " u%d <- \"%s\"%s entry=%d mgr=%d place=%d%s", a, hexesc(text).c_str(), window >= 0 ? (" window=" + std::to_string(window)).c_str() : "", entry, mgr, placement, c >= 0 ? (" [same buffer as op " + std::to_string(c) + "]").c_str() : ""); break;
    case OP_FREE: snprintf(buf, sizeof buf, " u%d entry=%d refree=%d", a, entry, refree); break;
    case OP_ADDBASE: snprintf(buf, sizeof buf, " u%d <- resolve(ref u%d, base u%d) opt=%d entry=%d mgr=%d", a, b, c, opt, entry, mgr); break;
    case OP_REMOVEBASE: snprintf(buf, sizeof buf, " u%d <- relativize(src u%d, base u%d) domainRoot=%d entry=%d mgr=%d", a, b, c, opt, entry, mgr); break;
    case OP_NORMALIZE: snprintf(buf, sizeof buf, " u%d mask=%d entry=%d", a, opt, entry); break;
    case OP_MAKEOWNER: snprintf(buf, sizeof buf, " u%d entry=%d", a, entry); break;
    case OP_TOSTRING: snprintf(buf, sizeof buf, " u%d cap=%s", a, cap == CAP_ALL ? "all" : cap == CAP_AMPLE ? "ample" : std::to_string(cap).c_str()); break;
    case OP_EQUALS: snprintf(buf, sizeof buf, " u%d u%d", a, b); break;
    case OP_MASKREQ: snprintf(buf, sizeof buf, " u%d entry=%d", a, entry); break;
    case OP_DISSECT: snprintf(buf, sizeof buf, " q%d <- \"%s\" opt=%d entry=%d mgr=%d", a, hexesc(text).c_str(), opt, entry, mgr); break;
    case OP_COMPOSE: snprintf(buf, sizeof buf, " q%d opt=%d entry=%d cap=%s", a, opt, entry, cap == CAP_ALL ? "all" : cap == CAP_AMPLE ? "ample" : std::to_string(cap).c_str()); break;
    case OP_COMPOSE_MALLOC: snprintf(buf, sizeof buf, " q%d opt=%d entry=%d mgr=%d", a, opt, entry, mgr); break;
    case OP_FREEQL: snprintf(buf, sizeof buf, " q%d", a); break;
    case OP_MKLIST: snprintf(buf, sizeof buf, " q%d items=%zu", a, keys.size()); break;
    case OP_LOSE: snprintf(buf, sizeof buf, " sources of u%d", a); break;
    default: snprintf(buf, sizeof buf, " h%d n1=%llu n2=%llu mgr=%d", a, n1, n2, mgr); break;
    }
    s += buf;
    if (fail_k) { snprintf(buf, sizeof buf, " [alloc_fail k=%s mode=%d]", fail_k == K_ALL ? "all" : std::to_string(fail_k).c_str(), fail_mode); s += buf; }
    if (lose) s += " [then source_loss]";
    if (keep) s += " [object kept in use if the call fails]";
    if (brk) { char b[64]; snprintf(b, sizeof b, " [manager table broken in place for this call, mask %d]", brk); s += b; }
    if (task) s += " @task" + std::to_string(task);
    return s;
}

J Plan::to_json() const {
    J j = J::obj();
    j.set("property", property);
    j.set("verif_seed", verif_seed); j.set("run_index", run_index); j.set("run_seed", run_seed);
    J cfg = J::obj();
    cfg.set("chr", chr ? "W" : "A");
    J ms = J::arr();
    for (size_t i = 0; i < mgrs.size(); i++) {
        J m = J::obj();
        static const char* kn[] = {"null-libc", "sim", "completed", "incomplete"};
        m.set("kind", kn[mgrs[i]]);
        if (mgrs[i] == MK_INCOMPLETE) m.set("mask", i < mgr_mask.size() ? mgr_mask[i] : 0);
        ms.push(m);
    }
    cfg.set("managers", ms);
    J hp = J::obj(); hp.set("junk", junk); hp.set("reuse", reuse == REUSE_LIFO ? "lifo" : "never"); hp.set("redzone", redzone);
    cfg.set("heap", hp);
    if (locale) cfg.set("locale", "C.UTF-8");
    j.set("config", cfg);
    J os = J::arr();
    for (auto& o : ops) os.push(o.to_json());
    j.set("ops", os);
    if (sched_policy || !sched_trace.empty()) {
        J s = J::obj();
        s.set("policy", sched_policy); s.set("seed", sched_seed); s.set("param", sched_param);
        if (!sched_trace.empty()) { J t = J::arr(); for (int x : sched_trace) t.push(x); s.set("trace", t); }
        j.set("schedule", s);
    }
    if (target >= 0) j.set("target", target);
    if (extra.t == J::OBJ) j.set("extra", extra);
    return j;
}

bool Plan::from_json(const J& j, Plan& p) {
    if (j.t != J::OBJ) return false;
    p = Plan();
    p.property = j.gets("property");
    p.verif_seed = (unsigned long long)j.geti("verif_seed"); p.run_index = (unsigned long long)j.geti("run_index"); p.run_seed = (unsigned long long)j.geti("run_seed");
    if (const J* c = j.get("config")) {
        p.chr = c->gets("chr") == "W" ? 1 : 0;
        if (const J* ms = c->get("managers")) for (auto& m : ms->a) {
            std::string k = m.gets("kind");
            int kind = k == "sim" ? MK_SIM : k == "completed" ? MK_COMPLETED : k == "incomplete" ? MK_INCOMPLETE : MK_LIBC;
            p.mgrs.push_back(kind); p.mgr_mask.push_back((int)m.geti("mask"));
        }
        p.locale = c->gets("locale") == "C.UTF-8" ? 1 : 0;
        if (const J* h = c->get("heap")) { p.junk = (unsigned long long)h->geti("junk"); p.reuse = h->gets("reuse") == "lifo" ? REUSE_LIFO : REUSE_NEVER; p.redzone = (int)h->geti("redzone", 32); }
    }
    if (const J* os = j.get("ops")) for (auto& o : os->a) { Op op = Op::from_json(o); if (op.kind < 0) return false; p.ops.push_back(op); }
    if (const J* s = j.get("schedule")) {
        p.sched_policy = (int)s->geti("policy"); p.sched_seed = (unsigned long long)s->geti("seed"); p.sched_param = (int)s->geti("param");
        if (const J* t = s->get("trace")) for (auto& x : t->a) p.sched_trace.push_back((int)x.i);
    }
    p.target = (int)j.geti("target", -1);
    if (const J* e = j.get("extra")) p.extra = *e;
    if (p.mgrs.empty()) { p.mgrs.push_back(MK_LIBC); p.mgr_mask.push_back(0); }
    return true;
}

std::string Plan::brief() const {
    std::string s;
    for (size_t i = 0; i < ops.size(); i++) { s += "  [" + std::to_string(i) + "] " + ops[i].brief() + "\n"; }
    return s;
}

}  // namespace sim
