// Property engines, templated over the character type. Included by engines_a.cpp / engines_w.cpp.
#pragma once
#include "exec.h"
#include "engine.h"
#include "gen.h"

namespace sim {

template <class C> struct RunOut {
    std::vector<OpOut> outs; std::vector<Violation> viol; unsigned long long hash = 0, events = 0; bool aborted = false;
    HeapStats hs; int executed = 0;
};

inline std::string token_of(const std::string& detail) {
    if (detail.size() > 2 && detail[0] == '[') { size_t e = detail.find(']'); if (e != std::string::npos) return detail.substr(1, e - 1); }
    return "";
}

template <class C, class Hook, class EndHook>
RunOut<C> run_plan(const Plan& p, Stats& st, bool faults, bool loss, Hook hook, EndHook endhook) {
    Exec<C> ex(p);
    ex.faults_enabled = faults; ex.loss_enabled = loss;
    ex.after_op = hook;
    ex.init();
    for (int i = 0; i < (int)p.ops.size() && !g.abort_run; i++) ex.exec_op(i);
    if (!g.abort_run) endhook(ex);
    ex.finish();
    RunOut<C> r;
    r.outs = ex.outs; r.viol = g.violations; r.hash = g.ev_hash; r.events = g.ev_count; r.aborted = g.abort_run; r.hs = g.hs;
    for (auto& o : r.outs) if (!o.skipped) r.executed++;
    st.trials++; st.ops += (unsigned long long)r.executed; st.loads += g.loads; st.stores += g.stores; st.edges += g.edges; st.events += g.ev_count; st.evh = mix64(st.evh, g.ev_hash);
    return r;
}
template <class C> RunOut<C> run_plan(const Plan& p, Stats& st, bool faults = true, bool loss = true) {
    return run_plan<C>(p, st, faults, loss, std::function<void(Exec<C>&, int)>(), [](Exec<C>&) {});
}

// first violation that is relevant to the property and not a listed known finding
inline bool pick_violation(const std::string& prop, const std::vector<Violation>& viol, Stats& st, Violation* out) {
    for (auto& v : viol) {
        if (!kind_relevant(prop, v.kind)) {
            st.anomalies[vkind_name(v.kind)]++;
            if (!st.anomaly_example.count(vkind_name(v.kind))) st.anomaly_example[vkind_name(v.kind)] = v.detail;
            continue;
        }
        std::string tok = token_of(v.detail);
        int k = g_known.match(prop, v.kind, tok);
        if (k >= 0) {
            const auto& ke = g_known.entries[(size_t)k];
            std::string key = ke.kind + (ke.token.empty() ? "" : ":" + ((!ke.token.empty() && ke.token.back() == '*') ? tok : ke.token));
            st.known[key]++;
            if (!st.known_example.count(key)) st.known_example[key] = v.detail;
            continue;
        }
        *out = v; return true;
    }
    return false;
}

inline Verdict make_verdict(const Plan& concrete, const Violation& v, unsigned long long hash) {
    Verdict d; d.violated = true; d.kind = v.kind; d.op = v.op; d.detail = v.detail; d.token = token_of(v.detail);
    d.op_kind = (v.op >= 0 && v.op < (int)concrete.ops.size()) ? opkind_name(concrete.ops[(size_t)v.op].kind) : (v.op >= (int)concrete.ops.size() ? "end" : "-");
    d.concrete = concrete; d.ev_hash = hash;
    return d;
}

inline unsigned long long sig_of_ops(const Plan& p) {
    unsigned long long h = 1469598103934665603ull;
    for (auto& o : p.ops) { unsigned char b[3] = {(unsigned char)o.kind, (unsigned char)o.entry, (unsigned char)o.opt}; h = fnv1a(b, 3, h); }
    return h;
}

// ------------------------------------------------------------------------------------------------
// operand bookkeeping for run comparison with taint
inline void op_reads_writes(const Op& o, std::vector<int>& ru, std::vector<int>& wu, std::vector<int>& rq, std::vector<int>& wq) {
    ru.clear(); wu.clear(); rq.clear(); wq.clear();
    switch (o.kind) {
    case OP_PARSE: wu.push_back(o.a); break;
    case OP_ADDBASE: case OP_REMOVEBASE: ru.push_back(o.b); ru.push_back(o.c); wu.push_back(o.a); break;
    case OP_NORMALIZE: case OP_MAKEOWNER: case OP_FREE: case OP_LOSE: ru.push_back(o.a); wu.push_back(o.a); break;
    case OP_TOSTRING: case OP_MASKREQ: ru.push_back(o.a); break;
    case OP_EQUALS: ru.push_back(o.a); ru.push_back(o.b); break;
    case OP_MKLIST: wq.push_back(o.a); break;
    case OP_DISSECT: if (o.b >= 0) rq.push_back(o.b); wq.push_back(o.a); break;
    case OP_COMPOSE: case OP_COMPOSE_MALLOC: case OP_FREEQL: rq.push_back(o.a); wq.push_back(o.a); break;
    default: break;
    }
}

// Compare a perturbed run against the reference run; ops whose inputs may legitimately differ are tainted and skipped.
// Returns index of first differing op or -1.
// `skip` is an op that legitimately differs (the in-place target of an injected failure); the slot it worked on is tainted from there on.
inline int compare_runs(const Plan& p, const std::vector<OpOut>& ref, const std::vector<OpOut>& out, std::set<int> tu, std::set<int> tq, int from, std::string* why, int skip = -1) {
    std::vector<int> ru, wu, rq, wq;
    for (int j = from; j < (int)p.ops.size(); j++) {
        const Op& o = p.ops[(size_t)j];
        if (ref[(size_t)j].aborted || out[(size_t)j].aborted) break;   // nothing after a fail-stop is comparable
        if (j == skip) { if (o.a >= 0) tu.insert(o.a); continue; }
        if (o.kind == OP_LOSE) continue;
        op_reads_writes(o, ru, wu, rq, wq);
        bool tin = false;
        for (int s : ru) if (tu.count(s)) tin = true;
        for (int s : rq) if (tq.count(s)) tin = true;
        bool differ_exec = ref[(size_t)j].skipped != out[(size_t)j].skipped;
        if (tin || differ_exec) { for (int s : wu) tu.insert(s); for (int s : wq) tq.insert(s); continue; }
        if (ref[(size_t)j].skipped) continue;
        if (ref[(size_t)j].rc != out[(size_t)j].rc || ref[(size_t)j].digest != out[(size_t)j].digest) {
            if (why) *why = "op " + std::to_string(j) + " (" + opkind_name(o.kind) + "): reference run gave rc=" + std::to_string(ref[(size_t)j].rc) + " {" + ref[(size_t)j].digest + "}, this run gave rc=" + std::to_string(out[(size_t)j].rc) + " {" + out[(size_t)j].digest + "}";
            return j;
        }
        if (o.kind == OP_PARSE || o.kind == OP_ADDBASE || o.kind == OP_REMOVEBASE) tu.erase(o.a);
        if (o.kind == OP_MKLIST || o.kind == OP_DISSECT) tq.erase(o.a);
    }
    return -1;
}

inline bool is_inplace(int kind) { return kind == OP_NORMALIZE || kind == OP_MAKEOWNER; }
inline bool is_alloc_target(int kind) {
    return kind == OP_PARSE || kind == OP_ADDBASE || kind == OP_REMOVEBASE || kind == OP_NORMALIZE || kind == OP_MAKEOWNER || kind == OP_DISSECT || kind == OP_COMPOSE_MALLOC;
}

// ================================================================================================ C14 (and the fault part of C03 / C17)
// plan.target = op index; ops[target].fail_k = K_ALL (enumerate every k, both modes) or a concrete k.
template <class C> Verdict check_fault(const Plan& plan, Stats& st, const std::string& prop) {
    Verdict none;
    st.runs++;
    int t = plan.target;
    if (t < 0 || t >= (int)plan.ops.size()) {   // shrunk away or unspecified: take the first op that carries a fault
        t = -1;
        for (int i = 0; i < (int)plan.ops.size(); i++) if (plan.ops[(size_t)i].fail_k) { t = i; break; }
        if (t < 0) return none;
    }
    RunOut<C> ref = run_plan<C>(plan, st, false, true);
    {
        Violation v;
        // a violation in the fault-free reference run is not this property's business (other checks judge it)
        if (!ref.viol.empty()) { for (auto& x : ref.viol) { st.anomalies[std::string("fault-free:") + vkind_name(x.kind)]++; if (!st.anomaly_example.count(std::string("fault-free:") + vkind_name(x.kind))) st.anomaly_example[std::string("fault-free:") + vkind_name(x.kind)] = x.detail; } }
        // a reference run that ended in a fail-stop cannot serve; one that merely recorded something (a store into static data, a load
        // from released memory) still can: what it recorded is not the injected failure's doing and is left out of the faulted runs
        if (ref.aborted) return none;
        (void)v;
    }
    std::set<int> ref_kinds; for (auto& x : ref.viol) ref_kinds.insert((int)x.kind);
    auto minus_ref = [&](const std::vector<Violation>& in) { if (ref_kinds.empty()) return in; std::vector<Violation> o; for (auto& x : in) if (!ref_kinds.count((int)x.kind)) o.push_back(x); return o; };
    if (ref.outs[(size_t)t].skipped) return none;
    int N = ref.outs[(size_t)t].reqs;
    const Op& top = plan.ops[(size_t)t];
    std::vector<std::pair<int, int>> trials;   // (k, mode)
    std::vector<unsigned long long> sets;
    if (top.fail_k == K_ALL) {
        for (int k = 1; k <= N; k++) { trials.emplace_back(k, 0); sets.push_back(0); trials.emplace_back(k, 1); sets.push_back(0); }
        int nsets = (int)plan.extra.geti("subset_trials", 0);
        Rng r(plan.run_seed ^ 0xfa17);
        for (int i = 0; i < nsets && N >= 2; i++) { trials.emplace_back(r.range(1, N - 1), 2); sets.push_back(r.next()); }
        if (N == 0) st.probe("target_without_allocation");
    } else if (top.fail_k > 0) { trials.emplace_back(top.fail_k, top.fail_mode); sets.push_back(top.fail_set); }
    for (size_t ti = 0; ti < trials.size(); ti++) {
        Plan q = plan;
        q.target = t;
        q.ops[(size_t)t].fail_k = trials[ti].first; q.ops[(size_t)t].fail_mode = trials[ti].second; q.ops[(size_t)t].fail_set = sets[ti];
        RunOut<C> out = run_plan<C>(q, st, true, true);
        const OpOut& to = out.outs[(size_t)t];
        if (to.fired) {
            st.fault("alloc_fail", (unsigned long long)to.fired);
            st.fault(trials[ti].second == 0 ? "alloc_fail.once" : trials[ti].second == 1 ? "alloc_fail.from_k" : "alloc_fail.subset");
            st.nontrivial++;
            unsigned char b[4] = {(unsigned char)top.kind, (unsigned char)trials[ti].first, (unsigned char)trials[ti].second, (unsigned char)to.fired};
            st.signatures.insert(fnv1a(b, 4, fnv1a(ref.outs[(size_t)t].digest, sig_of_ops(plan))));
            st.probe(std::string("fault_in_") + opkind_name(top.kind));
            if (top.kind == OP_NORMALIZE || top.kind == OP_MAKEOWNER) st.probe(ref.outs[(size_t)t].digest.find("owner=1") != std::string::npos ? "fault_inplace_result_owned" : "fault_inplace");
        } else st.fault("alloc_fail.configured_not_fired");
        Violation v;
        if (pick_violation(prop, minus_ref(out.viol), st, &v)) return make_verdict(q, v, out.hash);
        if (out.aborted) continue;
        // bounded recovery / rest of the history
        std::string why; std::set<int> tu, tq;
        int d = compare_runs(q, ref.outs, out.outs, tu, tq, 0, &why, (to.fired && is_inplace(top.kind)) ? t : -1);
        if (d >= 0) {
            Violation nv; nv.kind = V_NO_RECOVERY; nv.op = d; nv.detail = "after the injected failure at op " + std::to_string(t) + " (k=" + std::to_string(trials[ti].first) + ") and with faults off again, " + why;
            std::vector<Violation> one{nv};
            if (pick_violation(prop, one, st, &v)) return make_verdict(q, v, out.hash);
        }
    }
    return none;
}

template <class C> Verdict check_C14(const Plan& plan, Stats& st) {
    if (!plan.extra.geti("all_targets", 0)) return check_fault<C>(plan, st, "C14");
    // thorough tier: sweep every allocating call of the history in turn, not only the chosen target
    bool first = true;
    for (int t = 0; t < (int)plan.ops.size(); t++) {
        if (!is_alloc_target(plan.ops[(size_t)t].kind)) continue;
        Plan q = plan;
        q.extra = J::obj(); q.extra.set("subset_trials", plan.extra.geti("subset_trials", 0));
        for (auto& o : q.ops) { o.fail_k = 0; o.fail_mode = 0; o.fail_set = 0; }
        q.ops[(size_t)t].fail_k = K_ALL; q.target = t;
        Verdict d = check_fault<C>(q, st, "C14");
        if (!first) st.runs--;
        first = false;
        if (d.violated) return d;
    }
    return Verdict();
}

// ================================================================================================ C13
template <class C> Verdict check_C13(const Plan& plan, Stats& st) {
    Verdict none;
    st.runs++;
    RunOut<C> out = run_plan<C>(plan, st, false, true);
    unsigned long long allocs = out.hs.mallocs + out.hs.callocs;
    if (allocs && out.executed >= 2) {
        st.nontrivial++;
        unsigned long long h = sig_of_ops(plan);
        for (int k : plan.mgrs) { unsigned char b = (unsigned char)k; h = fnv1a(&b, 1, h); }
        for (auto& o : out.outs) { int rc = o.skipped ? -77 : o.rc; h = fnv1a(&rc, sizeof rc, h); h = fnv1a(o.digest, h); }
        st.signatures.insert(h);
    }
    for (size_t i = 0; i < plan.ops.size(); i++) {
        if (out.outs[i].skipped) continue;
        int mk = plan.mgrs[(size_t)plan.ops[i].mgr % plan.mgrs.size()];
        if (out.outs[i].digest == "rejected") st.probe("incomplete_manager_rejected");
        if (plan.ops[i].kind == OP_FREE && plan.ops[i].refree) st.probe("repeated_free");
        if (plan.ops[i].brk && out.outs[i].digest == "rejected") st.probe("manager_table_broken_in_place_rejected");
        if (plan.ops[i].kind == OP_A_SELFTEST) st.probe("self_test_inside_history");
        if ((plan.ops[i].kind == OP_ADDBASE || plan.ops[i].kind == OP_REMOVEBASE) && out.outs[i].rc == 0) {
            int a = plan.ops[i].b, b = plan.ops[i].c; (void)a; (void)b;
            st.probe(mk == MK_COMPLETED ? "resolve_on_completed_manager" : mk == MK_SIM ? "resolve_on_sim_manager" : "resolve_on_libc");
        }
    }
    st.probe("free_null_calls", out.hs.free_null);
    Violation v;
    if (pick_violation("C13", out.viol, st, &v)) return make_verdict(plan, v, out.hash);
    // the ledger must balance after the matching release call under allocation failures too: sweep every k of one target call
    bool has_fault = false;
    for (auto& o : plan.ops) if (o.fail_k) has_fault = true;
    if (has_fault && out.viol.empty()) {
        st.runs--;
        Verdict d = check_fault<C>(plan, st, "C13");
        if (d.violated) return d;
    }
    return none;
}

// ================================================================================================ C03
// Forms: extra.mode = "enumerate" (one parse op, all split points x placements x entries; alloc faults on the full text)
//        "pair" (two parse ops to compare), "fault" (check_fault on a parse)
template <class C> Verdict check_C03(const Plan& plan, Stats& st) {
    Verdict none;
    std::string mode = plan.extra.gets("mode", "enumerate");
    if (mode == "fault") return check_fault<C>(plan, st, "C03");
    if (mode == "ip4pair") {
        st.runs++;
        RunOut<C> out = run_plan<C>(plan, st, false, true);
        Violation v;
        if (pick_violation("C03", out.viol, st, &v)) return make_verdict(plan, v, out.hash);
        if (plan.ops.size() >= 2 && !out.outs[0].skipped && !out.outs[1].skipped && !out.aborted && (out.outs[0].rc != out.outs[1].rc || out.outs[0].digest != out.outs[1].digest)) {
            Violation nv; nv.kind = V_RESULT_DIFFERS; nv.op = 1;
            nv.detail = "uriParseIpFourAddress on the same characters gave {" + out.outs[0].digest + "} for a terminated copy and {" + out.outs[1].digest + "} for the exact range at the end of readable memory";
            std::vector<Violation> one{nv};
            if (pick_violation("C03", one, st, &v)) return make_verdict(plan, v, out.hash);
        }
        return none;
    }
    if (mode == "pair") {
        st.runs++;
        RunOut<C> out = run_plan<C>(plan, st, false, true);
        Violation v;
        if (pick_violation("C03", out.viol, st, &v)) return make_verdict(plan, v, out.hash);
        if (plan.ops.size() >= 2 && plan.ops[0].kind == OP_PARSE && plan.ops[1].kind == OP_PARSE && !out.outs[0].skipped && !out.outs[1].skipped) {
            const OpOut& a = out.outs[0]; const OpOut& b = out.outs[1];
            if (a.rc != b.rc || a.aux != b.aux || a.digest != b.digest || a.note != b.note) {
                Violation nv; nv.kind = V_RESULT_DIFFERS; nv.op = 1;
                nv.detail = "parsing the same characters gave different outcomes depending on placement/entry point: private exact copy -> rc=" + std::to_string(a.rc) + " pos=" + std::to_string(a.aux) + " {" + a.digest + "} layout " + a.note +
                            " ; variant -> rc=" + std::to_string(b.rc) + " pos=" + std::to_string(b.aux) + " {" + b.digest + "} layout " + b.note;
                std::vector<Violation> one{nv};
                if (pick_violation("C03", one, st, &v)) return make_verdict(plan, v, out.hash);
            }
        }
        return none;
    }
    // enumerate
    if (plan.ops.empty() || plan.ops[0].kind != OP_PARSE) return none;
    st.runs++;
    const Op& base = plan.ops[0];
    int n = (int)base.text.size();
    Rng r(plan.run_seed ^ 0xc03);
    bool nontriv = false;
    // every split point; for long texts (rare, seeded) both ends plus 48 seeded positions in between
    std::vector<int> windows;
    if (n <= 96) for (int w = n; w >= 0; w--) windows.push_back(w);
    else {
        std::set<int> ws;
        for (int w = 0; w <= 8; w++) { ws.insert(w); ws.insert(n - w); }
        for (int k = 0; k < 48; k++) ws.insert(r.range(0, n));
        for (auto it = ws.rbegin(); it != ws.rend(); ++it) windows.push_back(*it);
        st.probe("long_text_sampled_split_points");
    }
    for (int w : windows) {
        Op ref = base; ref.a = 0; ref.window = w; ref.placement = 0; ref.entry = 3; ref.mgr = 0; ref.fail_k = 0; ref.refree = 1;
        // variants
        struct Var { int placement, entry, mgr, trail; };
        std::vector<Var> vars;
        vars.push_back({1, 3, 0, r.range(0, 16)});
        vars.push_back({1, 0, 0, r.range(0, 16)});
        vars.push_back({0, 5, 1, 0});
        vars.push_back({1, 5, 1, r.range(0, 16)});
        if (w < n) vars.push_back({1, 3, 0, 0});             // the rest of the longer text follows directly
        bool nul_ok = base.text.substr(0, (size_t)w).find('\0') == std::string::npos;
        if (nul_ok) { vars.push_back({2, 1 + (int)r.below(2), 0, 0}); vars.push_back({2, 4, 0, 0}); }
        for (auto& vr : vars) {
            Plan q = plan; q.ops.clear(); q.extra = J::obj(); q.extra.set("mode", "pair");
            if (q.mgrs.size() < 2) { q.mgrs = {MK_LIBC, MK_SIM}; q.mgr_mask = {0, 0}; }
            Op v = ref; v.a = 1; v.placement = vr.placement == 2 ? 0 : vr.placement; v.entry = vr.entry; v.mgr = vr.mgr; v.trail = vr.trail; v.refree = (int)r.below(3);
            q.ops.push_back(ref); q.ops.push_back(v);
            Verdict d = check_C03<C>(q, st);
            st.runs--;
            if (d.violated) return d;
            nontriv = true;
        }
        st.fault("trailing_environment", vars.size());
        if (w < n) st.probe("split_point");
        // the IPv4 routine of the parser is public too: the same characters as an exact range without terminator vs a terminated copy
        {
            std::string sub = base.text.substr(0, (size_t)w);
            bool ipish = !sub.empty() && sub.find_first_not_of("0123456789.") == std::string::npos;
            if (ipish || r.chance(40)) {
                Plan q = plan; q.ops.clear(); q.extra = J::obj(); q.extra.set("mode", "ip4pair");
                Op a; a.kind = OP_ESCAPE; a.opt = 3; a.text = sub; a.placement = 0;
                Op b = a; b.placement = 3;
                q.ops.push_back(a); q.ops.push_back(b);
                Verdict d = check_C03<C>(q, st);
                st.runs--;
                if (d.violated) return d;
                st.probe("ipv4_routine_ranged_vs_terminated");
            }
        }
    }
    // allocation failure at every request of the full-text parse (residue part)
    {
        Plan q = plan; q.ops.clear(); q.extra = J::obj(); q.extra.set("mode", "fault");
        Op f = base; f.a = 0; f.window = -1; f.fail_k = K_ALL; f.refree = 1 + (int)r.below(2); f.entry = 5; f.mgr = (int)r.below(2);
        if (q.mgrs.size() < 2) { q.mgrs = {MK_LIBC, MK_SIM}; q.mgr_mask = {0, 0}; }
        q.ops.push_back(f); q.target = 0;
        Verdict d = check_fault<C>(q, st, "C03");
        st.runs--;
        if (d.violated) return d;
    }
    if (nontriv) { st.nontrivial++; st.signatures.insert(fnv1a(base.text)); }
    return none;
}

// ================================================================================================ C05
template <class C> Verdict check_C05(const Plan& plan, Stats& st) {
    Verdict none;
    st.runs++;
    RunOut<C> out = run_plan<C>(plan, st, false, true);
    for (size_t i = 0; i < plan.ops.size(); i++) {
        if (plan.ops[i].kind != OP_TOSTRING || out.outs[i].skipped) continue;
        if (plan.ops[i].cap == CAP_ALL) { st.fault("capacity", (unsigned long long)out.outs[i].reqs); st.trials += (unsigned long long)out.outs[i].reqs; }
        else st.fault("capacity");
        st.nontrivial++;
        st.signatures.insert(fnv1a(out.outs[i].digest));
        const std::string& t = out.outs[i].digest;
        if (t.find('[') != std::string::npos) st.probe("object_with_ip_literal");
        if (t.find("//") == std::string::npos && t.find("/.//") != std::string::npos) st.probe("object_with_dot_guard");
        if (out.outs[i].aux == 0) st.probe("empty_text_object");
        if (plan.ops[i].cap == CAP_ALL && (plan.run_seed >> 11) % 8 == 0 && out.outs[i].aux <= 256) st.probe("object_also_written_with_huge_and_very_negative_stated_capacity");
        if (plan.ops[i].cap == CAP_ALL && ((plan.run_seed >> 19) + (unsigned)i) % 4 == 0) st.probe("length_learned_from_ample_write_measuring_call_last");
        if (out.outs[i].aux > 1000) st.probe("object_longer_than_1000_characters");
    }
    Violation v;
    if (pick_violation("C05", out.viol, st, &v)) {
        Plan q = plan;
        // narrow "all" to the failing capacity
        if (v.op >= 0 && v.op < (int)q.ops.size() && q.ops[(size_t)v.op].kind == OP_TOSTRING && q.ops[(size_t)v.op].cap == CAP_ALL) {
            const std::string& note = out.outs[(size_t)v.op].note;
            int cap = 0, w = 0;
            if (sscanf(note.c_str(), "cap=%d written=%d", &cap, &w) == 2) { q.ops[(size_t)v.op].cap = cap; q.ops[(size_t)v.op].opt = w; }
        }
        return make_verdict(q, v, out.hash);
    }
    return none;
}

// ================================================================================================ shared: re-parse of a text into a scratch URI
template <class C> struct Reparse {
    typedef Api<C> A;
    int rc = 0; UriView view; bool aborted = false;
    typename A::Uri* u = nullptr;
    int tid = -1;
    // parses `text` with the default manager into a scratch structure (tag 90); caller must call done()
    void run(Exec<C>& ex, int opi, const std::string& text) {
        u = (typename A::Uri*)arena_alloc(A_OBJ, sizeof(typename A::Uri), 16, P_RW);
        arena_alloc(A_OBJ, 32, 1, perm(0, RS_REDZONE));
        tid = ex.make_text(text, -1, 0, 0, false);
        const C* first = ex.texts[(size_t)tid].base; const C* afterLast = first + ex.texts[(size_t)tid].win;
        volatile int r = -999;
        typename A::Uri* uu = u;
        bool ok = ex.call(opi, 90, 0, FaultPlan(), [&] { r = A::ParseSingleUriExMm(uu, first, afterLast, nullptr, nullptr); });
        if (!ok) { aborted = true; return; }
        rc = r;
        if (rc == URI_SUCCESS) view = Exec<C>::view(u);
    }
    void done(Exec<C>& ex, int opi) {
        if (aborted || rc != URI_SUCCESS) return;
        typename A::Uri* uu = u;
        ex.call(opi, 90, 0, FaultPlan(), [&] { A::FreeUriMembersMm(uu, nullptr); });
    }
};

// ------------------------------------------------------------------------------------------------
// RFC 3986 Appendix A, URI-reference, as a recogniser of its own (the statement of C07 says "valid URI reference"; asking the
// library's own parser alone would let a parser that accepts too much vouch for itself). Works on the narrowed text: a code point
// above 255 appears as "{U+...}" and is rejected through its braces.
namespace rfc {
inline bool alpha(unsigned char c) { return (c >= 'a' && c <= 'z') || (c >= 'A' && c <= 'Z'); }
inline bool digit(unsigned char c) { return c >= '0' && c <= '9'; }
inline bool hexd(unsigned char c) { return digit(c) || (c >= 'a' && c <= 'f') || (c >= 'A' && c <= 'F'); }
inline bool unres(unsigned char c) { return alpha(c) || digit(c) || c == '-' || c == '.' || c == '_' || c == '~'; }
inline bool subdelim(unsigned char c) { return c && strchr("!$&'()*+,;=", c) != nullptr; }
// chars: every char is unreserved / pct-encoded / sub-delim / one of `extra`
inline bool chars(const std::string& s, const char* extra) {
    for (size_t i = 0; i < s.size(); i++) {
        unsigned char c = (unsigned char)s[i];
        if (unres(c) || subdelim(c) || (c && strchr(extra, c))) continue;
        if (c == '%' && i + 2 < s.size() + 0 && hexd((unsigned char)s[i + 1]) && hexd((unsigned char)s[i + 2])) { i += 2; continue; }
        return false;
    }
    return true;
}
inline bool dec_octet(const std::string& s) {
    if (s.empty() || s.size() > 3) return false;
    for (char c : s) if (!digit((unsigned char)c)) return false;
    if (s.size() > 1 && s[0] == '0') return false;
    return atoi(s.c_str()) <= 255;
}
inline bool ipv4(const std::string& s) {
    size_t pos = 0; int n = 0;
    for (;;) { size_t d = s.find('.', pos); std::string o = s.substr(pos, d == std::string::npos ? std::string::npos : d - pos); if (!dec_octet(o)) return false; n++; if (d == std::string::npos) break; pos = d + 1; }
    return n == 4;
}
inline bool h16(const std::string& s) { if (s.empty() || s.size() > 4) return false; for (char c : s) if (!hexd((unsigned char)c)) return false; return true; }
inline bool ipv6(const std::string& s) {
    // split on "::" (at most one)
    size_t z = s.find("::");
    if (z != std::string::npos && s.find("::", z + 1) != std::string::npos) return false;
    auto groups = [](const std::string& t, std::vector<std::string>& out) { out.clear(); if (t.empty()) return true; size_t pos = 0; for (;;) { size_t d = t.find(':', pos); out.push_back(t.substr(pos, d == std::string::npos ? std::string::npos : d - pos)); if (d == std::string::npos) break; pos = d + 1; } return true; };
    std::vector<std::string> a, b;
    if (z == std::string::npos) groups(s, a); else { groups(s.substr(0, z), a); groups(s.substr(z + 2), b); }
    // the last group overall may be an IPv4 address (counts as two)
    std::vector<std::string>& last = (z == std::string::npos || !b.empty()) ? (z == std::string::npos ? a : b) : a;
    int count = 0; bool v4 = false;
    for (auto* v : {&a, &b}) for (size_t i = 0; i < v->size(); i++) {
        const std::string& g = (*v)[i];
        bool is_last = (v == &last) && i + 1 == v->size() && !(z != std::string::npos && v == &a && !b.empty());
        if (is_last && g.find('.') != std::string::npos) { if (!ipv4(g)) return false; v4 = true; count += 2; }
        else { if (!h16(g)) return false; count++; }
    }
    (void)v4;
    if (z == std::string::npos) return count == 8;
    return count <= 7;
}
inline bool ip_literal(const std::string& s) {   // without the brackets
    if (!s.empty() && (s[0] == 'v' || s[0] == 'V')) {
        size_t dot = s.find('.');
        if (dot == std::string::npos || dot < 2 || dot + 1 >= s.size()) return false;
        for (size_t i = 1; i < dot; i++) if (!hexd((unsigned char)s[i])) return false;
        for (size_t i = dot + 1; i < s.size(); i++) { unsigned char c = (unsigned char)s[i]; if (!(unres(c) || subdelim(c) || c == ':')) return false; }
        return true;
    }
    return ipv6(s);
}
inline bool authority(const std::string& a) {
    std::string rest = a;
    size_t at = rest.find('@');
    if (at != std::string::npos) { if (!chars(rest.substr(0, at), ":")) return false; rest = rest.substr(at + 1); }
    std::string host = rest, port;
    if (!rest.empty() && rest[0] == '[') {
        size_t rb = rest.find(']');
        if (rb == std::string::npos) return false;
        if (!ip_literal(rest.substr(1, rb - 1))) return false;
        std::string after = rest.substr(rb + 1);
        if (!after.empty()) { if (after[0] != ':') return false; port = after.substr(1); }
    } else {
        size_t c = rest.rfind(':');
        if (c != std::string::npos) { host = rest.substr(0, c); port = rest.substr(c + 1); }
        if (!chars(host, "")) return false;   // reg-name (an IPv4 address is a reg-name too, syntactically)
    }
    for (char c : port) if (!digit((unsigned char)c)) return false;
    return true;
}
inline bool uri_reference(const std::string& t, std::string* why) {
    std::string s = t;
    size_t h = s.find('#');
    if (h != std::string::npos) { if (!chars(s.substr(h + 1), ":@/?")) { *why = "fragment"; return false; } s = s.substr(0, h); }
    size_t q = s.find('?');
    if (q != std::string::npos) { if (!chars(s.substr(q + 1), ":@/?")) { *why = "query"; return false; } s = s.substr(0, q); }
    // scheme?
    bool has_scheme = false;
    size_t colon = s.find(':'), slash = s.find('/');
    if (colon != std::string::npos && (slash == std::string::npos || colon < slash)) {
        // a scheme only if the part before ':' has scheme syntax; otherwise it must be a relative-ref, where a first segment with ':' is illegal
        std::string sc = s.substr(0, colon);
        bool ok = !sc.empty() && alpha((unsigned char)sc[0]);
        for (char c : sc) { unsigned char u = (unsigned char)c; if (!(alpha(u) || digit(u) || u == '+' || u == '-' || u == '.')) ok = false; }
        if (!ok) { *why = "first path segment of a relative reference contains ':' (or malformed scheme)"; return false; }
        has_scheme = true; s = s.substr(colon + 1);
    }
    (void)has_scheme;
    if (s.compare(0, 2, "//") == 0) {
        size_t e = s.find('/', 2);
        if (!authority(s.substr(2, e == std::string::npos ? std::string::npos : e - 2))) { *why = "authority"; return false; }
        s = e == std::string::npos ? "" : s.substr(e);
    }
    if (!chars(s, ":@/")) { *why = "path"; return false; }
    return true;
}
}  // namespace rfc

// C07 invariants on the object in slot s produced by op i. Returns false if a violation was raised.
template <class C> bool roundtrip_check(Exec<C>& ex, int i, int s, Stats& st) {
    const typename Api<C>::Uri* u = ex.us[s].u;
    UriView x = Exec<C>::view(u);
    if (!x.structErr.empty()) { violate(V_STRUCTURE, "object u" + std::to_string(s) + " is not well formed: " + x.structErr + " {" + x.str() + "}", false); return false; }
    std::string text; int rc = 0;
    if (!ex.to_text(i, u, &text, &rc)) return false;
    if (rc != URI_SUCCESS) { violate(V_ROUNDTRIP, "object u" + std::to_string(s) + " cannot be recomposed (rc " + std::to_string(rc) + ") {" + x.str() + "}", false); return false; }
    Reparse<C> rp; rp.run(ex, i, text);
    if (rp.aborted) return false;
    std::string what;
    { std::string why; if (!rfc::uri_reference(text, &why)) what = "[not-a-uri-reference] recomposed text \"" + hexesc(text) + "\" is not a URI reference by the RFC 3986 grammar (" + why + "), whatever the library's own parser says (rc " + std::to_string(rp.rc) + ")"; }
    if (!what.empty()) {}
    else if (rp.rc != URI_SUCCESS) what = "[reparse-fails] recomposed text \"" + hexesc(text) + "\" is not a valid URI reference (rc " + std::to_string(rp.rc) + ")";
    else {
        const UriView& y = rp.view;
        if (x.scheme != y.scheme) what = std::string(x.scheme.present ? "[scheme-changed]" : "[path-read-as-scheme]") + " scheme held " + x.scheme.str() + ", re-read " + y.scheme.str();
        else if ((x.hostKind != 0) != (y.hostKind != 0)) what = std::string(x.hostKind ? "[authority-lost]" : "[path-read-as-authority]") + " authority " + (x.hostKind ? "present" : "absent") + " in the object, " + (y.hostKind ? "present" : "absent") + " when re-read";
        else if (x.userInfo != y.userInfo) what = "[userinfo] user info held " + x.userInfo.str() + ", re-read " + y.userInfo.str();
        else if (x.hostKind == 3 && y.hostKind == 3 ? x.ipBytes != y.ipBytes : x.hostText != y.hostText) what = "[host] host held " + x.hostText.str() + ", re-read " + y.hostText.str();
        else if (x.port != y.port) what = "[port] port held " + x.port.str() + ", re-read " + y.port.str();
        else if (x.path_text() != y.path_text()) what = "[path] path text held \"" + hexesc(x.path_text()) + "\", re-read \"" + hexesc(y.path_text()) + "\"";
        else if (x.query != y.query) what = "[query] query held " + x.query.str() + ", re-read " + y.query.str();
        else if (x.fragment != y.fragment) what = "[fragment] fragment held " + x.fragment.str() + ", re-read " + y.fragment.str();
    }
    rp.done(ex, i);
    if (!x.hasPath && x.hostKind == 0) st.probe("object_without_path");
    if (x.hasPath && !x.segs.empty() && x.segs[0] == "." ) st.probe("object_with_leading_dot_segment");
    if (x.hostKind != 0 && x.hasPath && x.segs.size() == 1 && x.segs[0].empty()) st.probe("object_host_plus_empty_segment");
    if (!what.empty()) {
        // token first so that known findings can be matched by shape
        size_t e = what.find(']');
        std::string tok = what.substr(0, e + 1), rest = what.substr(e + 1);
        violate(V_ROUNDTRIP, tok + " object u" + std::to_string(s) + " {" + x.str() + "} recomposes to \"" + hexesc(text) + "\":" + rest, false);
        return false;
    }
    return true;
}

// Shape token for two objects whose recomposed texts are identical but which differ structurally (C11 alias family).
// Common trailing segments are stripped so that the token names only the differing head of the two paths.
inline std::string alias_token(const UriView& a, const UriView& b, int a_path_origin = -1, int a_host_origin = -1) {
    static const char* kn[] = {"none", "regname", "ip4", "ip6", "ipfuture"};
    std::vector<std::string> parts;
    if (a.scheme != b.scheme || a.userInfo != b.userInfo || a.port != b.port || a.query != b.query || a.fragment != b.fragment ||
        (a.hostKind == b.hostKind && (a.hostKind == 2 || a.hostKind == 3 ? a.ipBytes != b.ipBytes : a.hostText != b.hostText)))
        return "alias:other";
    if (a.hostKind != b.hostKind) {
        std::string x = kn[a.hostKind], y = kn[b.hostKind];
        if (a_host_origin >= 0) parts.push_back(std::string("host:") + x + "@" + (a_host_origin == OP_NORMALIZE ? "normalize" : a_host_origin == OP_PARSE ? "parse" : "resolve-or-relativize") + "|" + y);
        else { if (y < x) std::swap(x, y); parts.push_back("host:" + x + "|" + y); }
    }
    if (a.absolutePath != b.absolutePath || a.hasPath != b.hasPath || a.segs != b.segs) {
        size_t k = 0;
        while (k < a.segs.size() && k < b.segs.size() && a.segs[a.segs.size() - 1 - k] == b.segs[b.segs.size() - 1 - k]) k++;
        auto shape = [&](const UriView& v) {
            std::string s = v.hostKind ? "H" : (v.absolutePath ? "A" : "R");
            if (!v.scheme.present && !v.hostKind) s += "n";     // no scheme: a relative reference
            if (!v.hasPath) return s + "~";
            s += "(";
            size_t n = v.segs.size() - k;
            for (size_t i = 0; i < n && i < 6; i++) s += v.segs[i].empty() ? 'e' : (v.segs[i] == "." ? 'd' : 'x');
            if (n > 6) s += '*';
            return s + ")";
        };
        std::string x = shape(a), y = shape(b);
        if (a_path_origin >= 0) parts.push_back("path:" + x + "@" + (a_path_origin == OP_NORMALIZE ? "normalize" : a_path_origin == OP_PARSE ? "parse" : "resolve-or-relativize") + "|" + y);
        else { if (y < x) std::swap(x, y); parts.push_back("path:" + x + "|" + y); }
    }
    if (parts.empty()) return "alias:other";
    std::string t = "alias:";
    for (size_t i = 0; i < parts.size(); i++) { if (i) t += "+"; t += parts[i]; }
    return t;
}

inline bool produces_uri(int kind) { return kind == OP_PARSE || kind == OP_ADDBASE || kind == OP_REMOVEBASE || kind == OP_NORMALIZE || kind == OP_MAKEOWNER; }

// ================================================================================================ C07
template <class C> Verdict check_C07(const Plan& plan, Stats& st) {
    Verdict none;
    st.runs++;
    int checked = 0, chained = 0;
    std::vector<int> depth(N_USLOTS, 0);
    unsigned long long sig = sig_of_ops(plan);
    auto hook = [&](Exec<C>& ex, int i) {
        const Op& op = plan.ops[(size_t)i];
        if (!produces_uri(op.kind) || ex.outs[(size_t)i].rc != URI_SUCCESS || !ex.uri_ok(op.a)) return;
        if (op.kind == OP_PARSE) depth[(size_t)op.a] = 1;
        else if (op.kind == OP_ADDBASE || op.kind == OP_REMOVEBASE) depth[(size_t)op.a] = 1 + std::max(depth[(size_t)op.b], depth[(size_t)op.c]);
        else depth[(size_t)op.a]++;
        checked++;
        if (depth[(size_t)op.a] >= 2) chained++;
        sig = fnv1a(ex.outs[(size_t)i].digest, sig);
        if (!roundtrip_check(ex, i, op.a, st)) {
            // blame rule: the failing object leaves the pool so that it cannot become an operand
            if (!g.abort_run && ex.us[op.a].state == S_VALID) ex.us[op.a].state = S_STALE;
        }
    };
    RunOut<C> out = run_plan<C>(plan, st, false, true, std::function<void(Exec<C>&, int)>(hook), [](Exec<C>&) {});
    st.probe("objects_checked", (unsigned long long)checked);
    st.probe("objects_from_chains_of_2plus_ops", (unsigned long long)chained);
    if (chained) { st.nontrivial++; st.signatures.insert(sig); }
    Violation v;
    if (pick_violation("C07", out.viol, st, &v)) return make_verdict(plan, v, out.hash);
    return none;
}

// ================================================================================================ C11
template <class C> Verdict check_C11(const Plan& plan, Stats& st) {
    typedef Api<C> A;
    Verdict none;
    st.runs++;
    unsigned long long sig = sig_of_ops(plan);
    int pairs = 0;
    auto endhook = [&](Exec<C>& ex) {
        int n = (int)plan.ops.size();
        std::vector<int> live;
        for (int s = 0; s < N_USLOTS; s++) if (ex.uri_ok(s)) live.push_back(s);
        std::vector<UriView> views(N_USLOTS); std::vector<std::string> textv(N_USLOTS); std::vector<char> text_ok(N_USLOTS, 0);
        for (int s : live) {
            views[(size_t)s] = Exec<C>::view(ex.us[s].u);
            int rc = 0;
            if (!ex.to_text(n, ex.us[s].u, &textv[(size_t)s], &rc)) return;
            text_ok[(size_t)s] = rc == URI_SUCCESS;
            sig = fnv1a(views[(size_t)s].str(false), sig);
        }
        auto eq = [&](const typename A::Uri* a, const typename A::Uri* b, bool* res) -> bool {
            typename Exec<C>::Prot pr; std::string sa, sb;
            if (a) { Exec<C>::protect(pr, a); sa = Exec<C>::snapshot(a); }
            if (b) { Exec<C>::protect(pr, b); sb = Exec<C>::snapshot(b); }
            volatile int r = 0;
            bool ok = ex.call(n, -1, -1, FaultPlan(), [&] { r = A::EqualsUri(a, b); });
            Exec<C>::unprotect(pr);
            if (!ok) return false;
            if ((a && Exec<C>::snapshot(a) != sa) || (b && Exec<C>::snapshot(b) != sb)) violate(V_CONST_ARG_CHANGED, "comparison modified one of its arguments", false);
            *res = r != 0; return true;
        };
        bool r = false;
        if (!eq(nullptr, nullptr, &r)) return;
        if (!r) violate(V_EQUALS, "[null-null] two NULL arguments compare unequal", false);
        std::map<std::pair<int, int>, bool> res;
        for (int a : live) {
            if (!eq(ex.us[a].u, nullptr, &r)) return;
            if (r) violate(V_EQUALS, "[null-one] a URI compares equal to NULL", false);
            if (!eq(nullptr, ex.us[a].u, &r)) return;
            if (r) violate(V_EQUALS, "[null-one] NULL compares equal to a URI", false);
            for (int b : live) {
                if (!eq(ex.us[a].u, ex.us[b].u, &r)) return;
                res[{a, b}] = r; pairs++;
                const UriView& va = views[(size_t)a]; const UriView& vb = views[(size_t)b];
                bool comp = va.componentwise_equal(vb);
                if (a == b && !r) violate(V_EQUALS, "[reflexive] a URI compares unequal to itself {" + va.str(false) + "}", false);
                if (r != comp) {
                    std::string diff;
                    if (va.scheme != vb.scheme) diff += "scheme ";
                    if (va.userInfo != vb.userInfo) diff += "userinfo ";
                    if (va.hostKind != vb.hostKind || (va.hostKind == 2 || va.hostKind == 3 ? va.ipBytes != vb.ipBytes : va.hostText != vb.hostText)) diff += "host ";
                    if (va.port != vb.port) diff += "port ";
                    if (va.absolutePath != vb.absolutePath) diff += "absolute-path-flag ";
                    if (va.hasPath != vb.hasPath || va.segs != vb.segs) diff += "segments ";
                    if (va.query != vb.query) diff += "query ";
                    if (va.fragment != vb.fragment) diff += "fragment ";
                    violate(V_EQUALS, std::string(r ? "[equal-but-components-differ]" : "[unequal-but-components-identical]") + " uriEqualsUri(u" + std::to_string(a) + ", u" + std::to_string(b) + ") = " + (r ? "true" : "false") +
                            " but the components " + (comp ? "are identical" : "differ in: " + diff) + "; a={" + va.str(false) + "} b={" + vb.str(false) + "}", false);
                }
                if (text_ok[(size_t)a] && text_ok[(size_t)b] && !ex.us[a].survivor && !ex.us[b].survivor) {
                    bool same_text = textv[(size_t)a] == textv[(size_t)b];
                    if (r && !same_text) violate(V_EQUALS, "[equal-but-texts-differ] equal URIs recompose to different texts \"" + hexesc(textv[(size_t)a]) + "\" vs \"" + hexesc(textv[(size_t)b]) + "\"", false);
                    // (two objects with identical text that compare unequal are either componentwise identical - reported above - or at
                    //  least one of them differs structurally from the re-parse of its own text, which is reported below per object)
                }
            }
        }
        for (int a : live) for (int b : live) {
            if (res[{a, b}] != res[{b, a}]) violate(V_EQUALS, "[symmetric] equals(u" + std::to_string(a) + ",u" + std::to_string(b) + ") differs from the reverse order", false);
            if (res[{a, b}]) for (int c : live) if (res[{b, c}] && !res[{a, c}]) violate(V_EQUALS, "[transitive] u" + std::to_string(a) + "=u" + std::to_string(b) + " and u" + std::to_string(b) + "=u" + std::to_string(c) + " but not u" + std::to_string(a) + "=u" + std::to_string(c), false);
        }
        // an object against the re-parse of its own text
        for (int a : live) {
            // (what a failed in-place call leaves behind is compared component-wise like every object, but nothing is claimed about its text)
            if (!text_ok[(size_t)a] || ex.us[a].survivor) continue;
            Reparse<C> rp; rp.run(ex, n, textv[(size_t)a]);
            if (rp.aborted) return;
            if (rp.rc == URI_SUCCESS) {
                if (!eq(ex.us[a].u, rp.u, &r)) return;
                pairs++;
                const UriView& va = views[(size_t)a];
                bool comp = va.componentwise_equal(rp.view);
                if (r != comp) violate(V_EQUALS, std::string(r ? "[equal-but-components-differ]" : "[unequal-but-components-identical]") + " object vs re-parse of its own text \"" + hexesc(textv[(size_t)a]) + "\": a={" + va.str(false) + "} b={" + rp.view.str(false) + "}", false);
                else if (!r) {
 violate(V_EQUALS, "[" + alias_token(va, rp.view, ex.us[a].path_origin, ex.us[a].host_origin) + "] object {" + va.str(false) + "} and the re-parse of its own text \"" + hexesc(textv[(size_t)a]) + "\" {" + rp.view.str(false) + "} compare unequal", false);
                }
            }
            rp.done(ex, n);
        }
    };
    RunOut<C> out = run_plan<C>(plan, st, true, true, std::function<void(Exec<C>&, int)>(), endhook);   // faults on: only "keep" ops carry one
    for (size_t i = 0; i < plan.ops.size(); i++) if (plan.ops[i].keep && out.outs[i].fired) { st.fault("alloc_fail.object_kept_in_use"); }
    st.probe("pairs_compared", (unsigned long long)pairs);
    if (pairs > 1) { st.nontrivial++; st.signatures.insert(sig); }
    Violation v;
    if (pick_violation("C11", out.viol, st, &v)) return make_verdict(plan, v, out.hash);
    return none;
}

// ================================================================================================ C12
// Generator form: extra.enumerate_loss = 1 and plan.target = index of the ownership op: a LOSE op for the owner is
// inserted at every later position. Concrete form: the plan contains explicit OP_LOSE ops.
template <class C> Verdict check_C12(const Plan& plan, Stats& st) {
    Verdict none;
    st.runs++;
    std::vector<Plan> variants;
    if (plan.extra.geti("enumerate_loss", 0) && plan.target >= 0 && plan.target < (int)plan.ops.size()) {
        int owner = plan.ops[(size_t)plan.target].a;
        for (int pos = plan.target + 1; pos <= (int)plan.ops.size(); pos++) {
            Plan q = plan; q.extra = J(); q.target = -1;
            Op l; l.kind = OP_LOSE; l.a = owner;
            q.ops.insert(q.ops.begin() + pos, l);
            variants.push_back(q);
        }
        // fault-free, loss-free run too: borrowed text never altered, const args unchanged
        Plan q = plan; q.extra = J(); q.target = -1; variants.push_back(q);
    } else variants.push_back(plan);
    // read-only arguments must stay unchanged when an allocation fails as well: sweep every k of one call (C12's oracles only)
    {
        bool has_fault = false;
        for (auto& o : plan.ops) if (o.fail_k) has_fault = true;
        if (has_fault) {
            Plan q = plan; q.extra = J(); q.target = -1;
            for (int i = 0; i < (int)q.ops.size(); i++) if (q.ops[(size_t)i].fail_k) { q.target = i; break; }
            st.runs--;
            Verdict d = check_fault<C>(q, st, "C12");
            if (d.violated) return d;
        }
    }
    for (auto& q0 : variants) {
        Plan q = q0;
        for (auto& o : q.ops) { o.fail_k = 0; o.fail_mode = 0; }
        if (q.target >= 0 && !q.extra.geti("enumerate_loss", 0)) q.target = -1;
        bool has_loss = false;
        for (auto& o : q.ops) if (o.kind == OP_LOSE || o.lose) has_loss = true;
        RunOut<C> ref = run_plan<C>(q, st, false, false);
        Violation v;
        if (pick_violation("C12", ref.viol, st, &v)) return make_verdict(q, v, ref.hash);
        if (!has_loss) continue;
        // (a reference run that ended in a fail-stop of another kind still serves: the comparison stops at that op,
        //  and loads from a dead buffer are violations on their own)
        RunOut<C> out = run_plan<C>(q, st, false, true);
        int fired = 0;
        for (size_t i = 0; i < q.ops.size(); i++) if (q.ops[i].kind == OP_LOSE && !out.outs[i].skipped && out.outs[i].aux > 0) fired++;
        if (fired) { st.fault("source_loss", (unsigned long long)fired); st.nontrivial++; unsigned long long h = sig_of_ops(q); for (auto& o : out.outs) h = fnv1a(o.digest, h); st.signatures.insert(h); }
        else st.fault("source_loss.configured_not_fired");
        if (pick_violation("C12", out.viol, st, &v)) return make_verdict(q, v, out.hash);
        if (out.aborted) continue;
        std::string why;
        int d = compare_runs(q, ref.outs, out.outs, {}, {}, 0, &why);
        if (d >= 0) {
            Violation nv; nv.kind = V_OWNER_CHANGED; nv.op = d; nv.detail = "after the source text of an owning URI was overwritten and released, " + why;
            std::vector<Violation> one{nv};
            if (pick_violation("C12", one, st, &v)) return make_verdict(q, v, out.hash);
        }
    }
    return none;
}

// ================================================================================================ C17
inline std::string model_breaks(const std::string& s, int compose_eff, int dissect_eff) {
    bool normalizeBreaks = (compose_eff & 2) != 0;
    int br = (dissect_eff >> 1) & 3;
    std::string target = br == URI_BR_TO_LF ? "\n" : br == URI_BR_TO_CRLF ? "\r\n" : br == URI_BR_TO_CR ? "\r" : "";
    if (br == URI_BR_DONT_TOUCH) { if (!normalizeBreaks) return s; target = "\r\n"; }
    std::string o;
    for (size_t i = 0; i < s.size(); i++) {
        if (s[i] == '\r') { o += target; if (i + 1 < s.size() && s[i + 1] == '\n') i++; }
        else if (s[i] == '\n') o += target;
        else o += s[i];
    }
    return o;
}
inline bool legal_query_text(const std::string& t, std::string* why) {
    for (size_t i = 0; i < t.size(); i++) {
        unsigned char c = (unsigned char)t[i];
        bool unres = (c >= 'a' && c <= 'z') || (c >= 'A' && c <= 'Z') || (c >= '0' && c <= '9') || c == '-' || c == '.' || c == '_' || c == '~';
        bool sub = strchr("!$&'()*+,;=", c) != nullptr && c != 0;
        bool extra = c == ':' || c == '@' || c == '/' || c == '?';
        if (unres || sub || extra) continue;
        if (c == '%') {
            auto hx = [](unsigned char h) { return (h >= '0' && h <= '9') || (h >= 'a' && h <= 'f') || (h >= 'A' && h <= 'F'); };
            if (i + 2 < t.size() + 0 && hx((unsigned char)t[i + 1]) && hx((unsigned char)t[i + 2])) { i += 2; continue; }
            *why = "malformed percent-encoding at offset " + std::to_string(i); return false;
        }
        char b[64]; snprintf(b, sizeof b, "character 0x%02x at offset %zu", c, i); *why = b; return false;
    }
    return true;
}

template <class C> Verdict check_C17(const Plan& plan, Stats& st) {
    Verdict none;
    if (plan.extra.gets("mode") == "fault") return check_fault<C>(plan, st, "C17");
    if (plan.extra.gets("mode") == "giant") return check_giant(plan, st);
    st.runs++;
    unsigned long long sig = sig_of_ops(plan);
    bool nontriv = false;
    auto hook = [&](Exec<C>& ex, int i) {
        const Op& op = plan.ops[(size_t)i];
        const OpOut& o = ex.outs[(size_t)i];
        if ((op.kind == OP_COMPOSE || op.kind == OP_COMPOSE_MALLOC) && o.rc == URI_SUCCESS && ex.qs[op.a].has_composed) {
            std::string why;
            if (!legal_query_text(o.digest, &why)) violate(V_QUERY_CHARS, "composed text \"" + hexesc(o.digest) + "\" contains " + why + ", which is not legal in a URI query", false);
            if (op.kind == OP_COMPOSE && op.cap == CAP_ALL) { st.fault("capacity", (unsigned long long)o.reqs); }
            sig = fnv1a(o.digest, sig);
        }
        if (op.kind == OP_DISSECT && op.b >= 0 && o.rc == URI_SUCCESS) {
            const auto& src = ex.qs[op.b];
            int ceff = src.eff_compose_opt, deff = o.eff_opt;
            bool matching = ((ceff & 1) != 0) == ((deff & 1) != 0) || !(ceff & 1);
            if (!matching) return;   // plus/space options do not match: no round-trip claim
            std::vector<QItem> expect;
            for (auto& it : src.items) {
                if (it.key.empty() && !it.has_value) continue;
                QItem e; e.key = model_breaks(it.key, ceff, deff); e.has_value = it.has_value; e.value = model_breaks(it.value, ceff, deff);
                expect.push_back(e);
            }
            const auto& got = ex.qs[op.a].items;
            nontriv = true;
            if (!(expect.size() == got.size() && std::equal(expect.begin(), expect.end(), got.begin())))
                violate(V_QUERY_ROUNDTRIP, "list " + qitems_str(src.items) + " composed (options " + std::to_string(ceff) + ") to \"" + hexesc(src.composed) + "\" dissects (options " + std::to_string(deff) + ") to " + qitems_str(got) + ", expected " + qitems_str(expect), false);
            else if (o.aux != (int)got.size()) violate(V_QUERY_ROUNDTRIP, "item count " + std::to_string(o.aux) + " differs from list length " + std::to_string(got.size()), false);
        }
    };
    RunOut<C> out = run_plan<C>(plan, st, false, true, std::function<void(Exec<C>&, int)>(hook), [](Exec<C>&) {});
    if (nontriv) { st.nontrivial++; st.signatures.insert(sig); }
    Violation v;
    if (pick_violation("C17", out.viol, st, &v)) {
        Plan q = plan;
        if (v.op >= 0 && v.op < (int)q.ops.size() && q.ops[(size_t)v.op].kind == OP_COMPOSE && q.ops[(size_t)v.op].cap == CAP_ALL) {
            int cap = 0;
            if (sscanf(out.outs[(size_t)v.op].note.c_str(), "cap=%d", &cap) == 1) q.ops[(size_t)v.op].cap = cap;
        }
        return make_verdict(q, v, out.hash);
    }
    return none;
}

}  // namespace sim

#include "conc.h"

namespace sim {
template <class C> Verdict check_plan_T(const Plan& p, Stats& st) {
    const std::string& pr = p.property;
    if (pr == "C14") return check_C14<C>(p, st);
    if (pr == "C13") return check_C13<C>(p, st);
    if (pr == "C03") return check_C03<C>(p, st);
    if (pr == "C05") return check_C05<C>(p, st);
    if (pr == "C07") return check_C07<C>(p, st);
    if (pr == "C11") return check_C11<C>(p, st);
    if (pr == "C12") return check_C12<C>(p, st);
    if (pr == "C17") return check_C17<C>(p, st);
    if (pr == "C20") return check_C20<C>(p, st);
    return Verdict();
}
}  // namespace sim
