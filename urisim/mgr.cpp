// Memory managers handed to the library: simulated 5-function manager, malloc/free-only backend for
// uriCompleteMemoryManager, incomplete tables.
#include "exec.h"
#include <errno.h>

extern "C" {
void* sim_malloc(size_t n);
void sim_free(void* p);
}

namespace sim {

void sim_free_public(void* p) { sim_free(p); }
void* sim_malloc_public(size_t n) { return sim_malloc(n); }

// A manager may keep its state in the table object itself (pool allocators embed the table as first member), so the callbacks must be
// entered with the very pointer the caller supplied, not with a copy of the table.
static MgrRec* rec_of(UriMemoryManager* m) {
    MgrRec* r = (MgrRec*)m->userData;
    if (r->self && m != r->self) violate(V_BYPASS, "an allocator callback of manager m" + std::to_string(r->id) + " was entered with a manager pointer (" + addr_name(m) + ") that is not the table the caller supplied", false);
    return r;
}

extern "C" {
void* urisim_cb_malloc(UriMemoryManager* m, size_t n) { return heap_malloc(rec_of(m)->id, n, false, "malloc"); }
void* urisim_cb_calloc(UriMemoryManager* m, size_t a, size_t b) {
    size_t t = a * b;
    if (a && t / a != b) {
        if (g.cur->in_call) g.cur->req_count++;
        event("m%d calloc(overflow) -> NULL", rec_of(m)->id);
        errno = ENOMEM; return nullptr;
    }
    return heap_malloc(rec_of(m)->id, t, true, "calloc");
}
void urisim_cb_free(UriMemoryManager* m, void* p) { heap_free(rec_of(m)->id, p); }
void* urisim_cb_realloc(UriMemoryManager* m, void* p, size_t n) {
    int id = rec_of(m)->id;
    if (!p) return heap_malloc(id, n, false, "realloc-new");
    if (n == 0) { heap_free(id, p); return nullptr; }
    Block* b = heap_find(p);
    if (!b || !b->live || b->mgr != id) { violate(V_BAD_FREE, "realloc of a pointer that is not a live block of this manager", true); return nullptr; }
    uint32_t old = b->size;
    void* q = heap_malloc(id, n, false, "realloc");
    if (!q) return nullptr;
    memcpy(q, p, old < n ? old : n);
    heap_free(id, p);
    return q;
}
void* urisim_cb_reallocarray(UriMemoryManager* m, void* p, size_t a, size_t b) {
    size_t t = a * b;
    if (a && t / a != b) { errno = ENOMEM; return nullptr; }
    return urisim_cb_realloc(m, p, t);
}
void* urisim_trap_calloc(UriMemoryManager*, size_t, size_t) { violate(V_TRAP, "calloc slot of a malloc/free-only backend was called", true); return nullptr; }
void* urisim_trap_realloc(UriMemoryManager*, void*, size_t) { violate(V_TRAP, "realloc slot of a malloc/free-only backend was called", true); return nullptr; }
void* urisim_trap_reallocarray(UriMemoryManager*, void*, size_t, size_t) { violate(V_TRAP, "reallocarray slot of a malloc/free-only backend was called", true); return nullptr; }
}

// uriCompleteMemoryManager(out, backend) under the monitor like any other library call: the backend table is a read-only
// argument, the new table the only output
void complete_manager(MgrInst& m) {
    UriMemoryManager* t = m.backend;
    UriMemoryManager* c = (UriMemoryManager*)arena_alloc(A_OBJ, sizeof(UriMemoryManager), 16, P_RW);
    arena_alloc(A_OBJ, 32, 1, perm(0, RS_REDZONE));
    memset(c, 0, sizeof *c);
    set_perm(t, sizeof *t, perm(P_R, RS_CONST_ARG));
    volatile int rc = 0; bool ok = false;
    call_begin(g.cur->op, -1, -1, FaultPlan());
    LIBCALL_RUN({ rc = uriCompleteMemoryManager(c, t); }, ok);
    call_end();
    if (ok && rc != URI_SUCCESS) violate(V_WRONG_RC, "uriCompleteMemoryManager failed on a backend that offers malloc and free", false);
    m.table = c;
    set_perm(c, sizeof *c, perm(P_R, RS_CONST_ARG));
}

std::vector<MgrInst> build_managers(const std::vector<int>& kinds, const std::vector<int>& masks, bool defer_completion) {
    std::vector<MgrInst> v;
    for (size_t i = 0; i < kinds.size(); i++) {
        MgrInst m; m.kind = kinds[i]; m.id = kinds[i] == MK_LIBC ? 0 : (int)i + 1; m.mask = i < masks.size() ? masks[i] : 31;
        if (m.kind != MK_LIBC) {
            m.rec = (MgrRec*)arena_alloc(A_OBJ, sizeof(MgrRec), 8, perm(0, RS_NOT_DECLARED));   // the library has no business reading userData's target
            m.rec->id = m.id; m.rec->kind = m.kind; m.rec->index = (int)i; m.rec->self = nullptr;
            UriMemoryManager* t = (UriMemoryManager*)arena_alloc(A_OBJ, sizeof(UriMemoryManager), 16, P_RW);
            m.rec->self = t;
            arena_alloc(A_OBJ, 32, 1, perm(0, RS_REDZONE));
            memset(t, 0, sizeof *t);
            if (m.kind == MK_SIM) {
                t->malloc = urisim_cb_malloc; t->calloc = urisim_cb_calloc; t->realloc = urisim_cb_realloc;
                t->reallocarray = urisim_cb_reallocarray; t->free = urisim_cb_free; t->userData = m.rec;
                m.table = t;
            } else if (m.kind == MK_INCOMPLETE) {
                int k = m.mask & 31;
                if (k == 31) k = 30;
                t->malloc = (k & 1) ? urisim_cb_malloc : nullptr; t->calloc = (k & 2) ? urisim_cb_calloc : nullptr;
                t->realloc = (k & 4) ? urisim_cb_realloc : nullptr; t->reallocarray = (k & 8) ? urisim_cb_reallocarray : nullptr;
                t->free = (k & 16) ? urisim_cb_free : nullptr; t->userData = m.rec;
                m.table = t;
                // the two manager-level entry points must reject it too, before using it
                {
                    set_perm(t, sizeof *t, perm(P_R, RS_CONST_ARG));
                    volatile int rc = 0; bool ok = false;
                    call_begin(-1, -1, m.id, FaultPlan());
                    LIBCALL_RUN({ rc = uriTestMemoryManager(t); }, ok);
                    int ev = g.cur->req_count + g.cur->free_count;
                    call_end();
                    if (ok && (rc != URI_ERROR_MEMORY_MANAGER_INCOMPLETE || ev)) violate(V_ALLOC_BEFORE_REJECT, "uriTestMemoryManager on an incomplete manager returned " + std::to_string(rc) + " after " + std::to_string(ev) + " allocator call(s)", false);
                    if (!(k & 1) || !(k & 16)) {
                        UriMemoryManager* c = (UriMemoryManager*)arena_alloc(A_OBJ, sizeof(UriMemoryManager), 16, P_RW);
                        arena_alloc(A_OBJ, 32, 1, perm(0, RS_REDZONE));
                        memset(c, 0, sizeof *c);
                        call_begin(-1, -1, m.id, FaultPlan());
                        LIBCALL_RUN({ rc = uriCompleteMemoryManager(c, t); }, ok);
                        ev = g.cur->req_count + g.cur->free_count;
                        call_end();
                        if (ok && (rc != URI_ERROR_MEMORY_MANAGER_INCOMPLETE || ev)) violate(V_ALLOC_BEFORE_REJECT, "uriCompleteMemoryManager over a backend without malloc or free returned " + std::to_string(rc), false);
                    }
                }
            } else {  // MK_COMPLETED: backend offers malloc and free only
                t->malloc = urisim_cb_malloc; t->free = urisim_cb_free; t->userData = m.rec;
                t->calloc = urisim_trap_calloc; t->realloc = urisim_trap_realloc; t->reallocarray = urisim_trap_reallocarray;
                m.backend = t;
                if (!defer_completion) complete_manager(m);
            }
            set_perm(t, sizeof *t, perm(P_R, RS_CONST_ARG));
        }
        v.push_back(m);
    }
    if (v.empty()) { MgrInst m; v.push_back(m); }
    return v;
}

}  // namespace sim
