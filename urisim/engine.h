// Engine interface: generate a plan from (property, seed, index, tier); check a plan; statistics.
#pragma once
#include "plan.h"
#include <map>
#include <set>
#include <string>
#include <vector>

namespace sim {

struct Stats {
    unsigned long long runs = 0, trials = 0, ops = 0, nontrivial = 0;
    unsigned long long loads = 0, stores = 0, edges = 0, events = 0;
    unsigned long long evh = 0;                          // fold of the event hashes of every run (determinism check)
    std::map<std::string, unsigned long long> faults;    // fault kind -> times fired
    std::map<std::string, unsigned long long> probes;    // rare-condition probes
    std::map<std::string, unsigned long long> anomalies; // out-of-scope violation kinds seen (not this property's)
    std::map<std::string, std::string> anomaly_example;
    std::map<std::string, unsigned long long> known;     // known-finding token -> count
    std::map<std::string, std::string> known_example;
    std::set<unsigned long long> signatures;             // distinct non-trivial cases
    std::set<unsigned long long> schedules;              // distinct schedule traces (C20)
    std::set<unsigned long long> switch_points;          // distinct (edge, from, to)
    std::vector<std::string> samples;
    std::vector<unsigned char> cov;                      // merged guard coverage
    void merge(const Stats& o);
    J to_json() const;
    static Stats from_json(const J& j);
    void probe(const std::string& k, unsigned long long n = 1) { probes[k] += n; }
    void fault(const std::string& k, unsigned long long n = 1) { faults[k] += n; }
};

struct Verdict {
    bool violated = false;
    VKind kind = V_NONE;
    int op = -1;
    std::string op_kind;
    std::string token;     // sub-class token (e.g. alias kind), may be empty
    std::string detail;
    Plan concrete;         // plan narrowed to the failing trial (explicit k / cap / loss position / pair)
    unsigned long long ev_hash = 0;
    std::string klass(const std::string& prop) const { return prop + ":" + vkind_name(kind) + ":" + op_kind + (token.empty() ? "" : ":" + token); }
};

struct KnownFindings {
    struct Entry { std::string property, kind, token, what, witness; bool fixed = false; };
    std::vector<Entry> entries;
    bool load(const std::string& path);
    // returns index of matching *open* (not fixed) finding or -1
    int match(const std::string& prop, VKind kind, const std::string& token) const;
};
extern KnownFindings g_known;

enum Tier { TIER_QUICK = 0, TIER_THOROUGH = 1 };

Plan generate_plan(const std::string& prop, unsigned long long vseed, unsigned long long index, Tier tier);
Verdict check_plan(const Plan& p, Stats& st);          // dispatches on p.property / p.chr
Verdict check_plan_A(const Plan& p, Stats& st);
Verdict check_plan_W(const Plan& p, Stats& st);
Verdict check_alloc(const Plan& p, Stats& st);         // C15
Verdict check_giant(const Plan& p, Stats& st);         // C17 INT_MAX clause
Plan shrink_plan(const Plan& p, const Verdict& v, int* reruns);

// which violation kinds a property's check reports (others are tallied as out-of-scope anomalies)
bool kind_relevant(const std::string& prop, VKind k);

}  // namespace sim
