#include "engine.h"
#include "gen.h"
#include "rt.h"
#include <algorithm>
#include <functional>
#include <fstream>
#include <sstream>
#include <locale.h>

namespace sim {

KnownFindings g_known;

// ---------------------------------------------------------------- Stats
void Stats::merge(const Stats& o) {
    runs += o.runs; trials += o.trials; ops += o.ops; nontrivial += o.nontrivial;
    loads += o.loads; stores += o.stores; edges += o.edges; events += o.events; evh ^= o.evh;
    for (auto& kv : o.faults) faults[kv.first] += kv.second;
    for (auto& kv : o.probes) probes[kv.first] += kv.second;
    for (auto& kv : o.anomalies) anomalies[kv.first] += kv.second;
    for (auto& kv : o.anomaly_example) if (!anomaly_example.count(kv.first)) anomaly_example[kv.first] = kv.second;
    for (auto& kv : o.known) known[kv.first] += kv.second;
    for (auto& kv : o.known_example) if (!known_example.count(kv.first)) known_example[kv.first] = kv.second;
    signatures.insert(o.signatures.begin(), o.signatures.end());
    schedules.insert(o.schedules.begin(), o.schedules.end());
    switch_points.insert(o.switch_points.begin(), o.switch_points.end());
    for (auto& s : o.samples) if (samples.size() < 6) samples.push_back(s);
    if (cov.size() < o.cov.size()) cov.resize(o.cov.size(), 0);
    for (size_t i = 0; i < o.cov.size(); i++) if (o.cov[i]) cov[i] = 1;
}

static J map_json(const std::map<std::string, unsigned long long>& m) { J j = J::obj(); for (auto& kv : m) j.set(kv.first, kv.second); return j; }
static J smap_json(const std::map<std::string, std::string>& m) { J j = J::obj(); for (auto& kv : m) j.set(kv.first, kv.second); return j; }
static J set_json(const std::set<unsigned long long>& s) { J j = J::arr(); for (auto v : s) j.push((long long)v); return j; }

J Stats::to_json() const {
    J j = J::obj();
    j.set("runs", runs); j.set("trials", trials); j.set("ops", ops); j.set("nontrivial", nontrivial);
    j.set("loads", loads); j.set("stores", stores); j.set("edges", edges); j.set("events", events); j.set("evh", (long long)evh);
    j.set("faults", map_json(faults)); j.set("probes", map_json(probes)); j.set("anomalies", map_json(anomalies));
    j.set("anomaly_example", smap_json(anomaly_example)); j.set("known", map_json(known)); j.set("known_example", smap_json(known_example));
    j.set("signatures", set_json(signatures)); j.set("schedules", set_json(schedules)); j.set("switch_points", set_json(switch_points));
    J s = J::arr(); for (auto& x : samples) s.push(x); j.set("samples", s);
    std::string c; c.reserve(cov.size()); for (auto b : cov) c += b ? '1' : '0'; j.set("cov", c);
    return j;
}
Stats Stats::from_json(const J& j) {
    Stats s;
    s.runs = (unsigned long long)j.geti("runs"); s.trials = (unsigned long long)j.geti("trials"); s.ops = (unsigned long long)j.geti("ops"); s.nontrivial = (unsigned long long)j.geti("nontrivial");
    s.loads = (unsigned long long)j.geti("loads"); s.stores = (unsigned long long)j.geti("stores"); s.edges = (unsigned long long)j.geti("edges"); s.events = (unsigned long long)j.geti("events"); s.evh = (unsigned long long)j.geti("evh");
    auto rm = [&](const char* k, std::map<std::string, unsigned long long>& m) { if (const J* x = j.get(k)) for (auto& kv : x->o) m[kv.first] = (unsigned long long)kv.second.i; };
    auto rs = [&](const char* k, std::map<std::string, std::string>& m) { if (const J* x = j.get(k)) for (auto& kv : x->o) m[kv.first] = kv.second.s; };
    auto rset = [&](const char* k, std::set<unsigned long long>& m) { if (const J* x = j.get(k)) for (auto& v : x->a) m.insert((unsigned long long)v.i); };
    rm("faults", s.faults); rm("probes", s.probes); rm("anomalies", s.anomalies); rs("anomaly_example", s.anomaly_example); rm("known", s.known); rs("known_example", s.known_example);
    rset("signatures", s.signatures); rset("schedules", s.schedules); rset("switch_points", s.switch_points);
    if (const J* x = j.get("samples")) for (auto& v : x->a) s.samples.push_back(v.s);
    std::string c = j.gets("cov"); s.cov.resize(c.size()); for (size_t i = 0; i < c.size(); i++) s.cov[i] = c[i] == '1';
    return s;
}

// ---------------------------------------------------------------- known findings
bool KnownFindings::load(const std::string& path) {
    std::ifstream f(path);
    if (!f) return false;
    std::stringstream ss; ss << f.rdbuf();
    J j;
    if (!J::parse(ss.str(), j)) return false;
    entries.clear();
    if (const J* fs = j.get("findings")) for (auto& e : fs->a) {
        Entry x; x.property = e.gets("property"); x.kind = e.gets("kind"); x.token = e.gets("token"); x.what = e.gets("what"); x.witness = e.gets("witness");
        x.fixed = e.gets("status") == "fixed";
        entries.push_back(x);
    }
    return true;
}
int KnownFindings::match(const std::string& prop, VKind kind, const std::string& token) const {
    auto find1 = [&](const std::string& tok) -> int {
        for (size_t i = 0; i < entries.size(); i++) {
            const Entry& e = entries[i];
            if (e.fixed || e.property != prop || e.kind != vkind_name(kind)) continue;
            if (e.token == tok) return (int)i;
            // discovery aid only (never used in the committed file): "prefix*" matches any token with that prefix except "...other"
            if (!e.token.empty() && e.token.back() == '*' && tok.compare(0, e.token.size() - 1, e.token, 0, e.token.size() - 1) == 0 && tok.find("other") == std::string::npos) return (int)i;
        }
        return -1;
    };
    // "alias:a+b" is a set of alias shapes: known only if every member is listed on its own
    if (token.compare(0, 6, "alias:") == 0 && token.find('+') != std::string::npos) {
        int first = -1; size_t pos = 6;
        while (pos <= token.size()) {
            size_t e = token.find('+', pos); if (e == std::string::npos) e = token.size();
            int k = find1("alias:" + token.substr(pos, e - pos));
            if (k < 0) return -1;
            if (first < 0) first = k;
            pos = e + 1;
        }
        return first;
    }
    return find1(token);
}

// ---------------------------------------------------------------- relevance of violation kinds per property
bool kind_relevant(const std::string& p, VKind k) {
    if (k == V_HARNESS) return true;
    if (const char* dbg = getenv("URISIM_DEBUG_RELEVANT")) if (std::string(dbg) == vkind_name(k)) return true;   // builder's aid: look at an out-of-scope anomaly
    if (k == V_CRASH || k == V_WILD_ACCESS) return true;
    auto in = [&](std::initializer_list<VKind> l) { for (auto x : l) if (x == k) return true; return false; };
    if (p == "C03") return in({V_READ_OUT_OF_WINDOW, V_STORE_INPUT_TEXT, V_RESULT_DIFFERS, V_LEAK_AFTER_FAILURE, V_LEAK_AT_END, V_DOUBLE_FREE, V_BAD_FREE, V_FOREIGN_FREE, V_TOUCH_FREED, V_WRONG_RC, V_NO_RECOVERY, V_HEAP_OVERFLOW});
    if (p == "C05") return in({V_SIZE_CONTRACT, V_STORE_BEYOND_CAP, V_CONST_ARG_CHANGED, V_STORE_CONST_ARG});
    if (p == "C07") return in({V_ROUNDTRIP, V_STRUCTURE});
    if (p == "C11") return in({V_EQUALS, V_CONST_ARG_CHANGED, V_STORE_CONST_ARG});
    if (p == "C12") return in({V_OWNER_CHANGED, V_READ_DEAD_SOURCE, V_STORE_INPUT_TEXT, V_STORE_CONST_ARG, V_CONST_ARG_CHANGED, V_TOUCH_FREED});
    if (p == "C13") return in({V_BYPASS, V_FOREIGN_FREE, V_BAD_FREE, V_DOUBLE_FREE, V_LEAK_AFTER_RELEASE, V_LEAK_AT_END, V_LEAK_AFTER_FAILURE, V_ALLOC_BEFORE_REJECT, V_TRAP});
    if (p == "C14") return in({V_WRONG_RC, V_LEAK_AFTER_FAILURE, V_LEAK_AT_END, V_LEAK_AFTER_RELEASE, V_DOUBLE_FREE, V_BAD_FREE, V_FOREIGN_FREE, V_TOUCH_FREED, V_CONST_ARG_CHANGED, V_STORE_CONST_ARG, V_NO_RECOVERY, V_HEAP_OVERFLOW, V_STORE_INPUT_TEXT});
    if (p == "C15") return in({V_ALLOC_MODEL, V_TRAP, V_BYPASS, V_DOUBLE_FREE, V_BAD_FREE, V_FOREIGN_FREE, V_TOUCH_FREED, V_HEAP_OVERFLOW, V_LEAK_AT_END, V_WRONG_RC});
    if (p == "C17") return in({V_QUERY_ROUNDTRIP, V_QUERY_CHARS, V_SIZE_CONTRACT, V_STORE_BEYOND_CAP, V_INTMAX, V_HEAP_OVERFLOW, V_WRONG_RC, V_LEAK_AFTER_FAILURE, V_LEAK_AT_END, V_LEAK_AFTER_RELEASE, V_DOUBLE_FREE, V_BAD_FREE, V_NO_RECOVERY, V_CONST_ARG_CHANGED, V_STORE_CONST_ARG, V_READ_OUT_OF_WINDOW});
    if (p == "C20") return in({V_DATA_RACE, V_STORE_STATIC, V_STORE_CONST_ARG, V_CONST_ARG_CHANGED, V_RESULT_DIFFERS, V_LEAK_AT_END, V_DOUBLE_FREE, V_BAD_FREE, V_TOUCH_FREED, V_STORE_INPUT_TEXT});
    return false;
}

// ---------------------------------------------------------------- dispatch
// the process locale is part of the environment a deployment puts the library in (it changes <ctype.h>/<wctype.h> classification)
static void apply_locale(int want) {
    static int cur = -1;
    if (want == cur) return;
    if (!setlocale(LC_ALL, want ? "C.UTF-8" : "C") && want) setlocale(LC_ALL, "C");
    cur = want;
    image_init();   // the locale's tables are new read-only mappings
}
static Verdict check_plan_inner(const Plan& p, Stats& st) {
    apply_locale(p.locale);
    if (p.locale) st.fault("environment.utf8_locale");
    if (p.property == "C15") return check_alloc(p, st);
    if (p.property == "C17" && p.extra.gets("mode") == "giant") return check_giant(p, st);
    return p.chr ? check_plan_W(p, st) : check_plan_A(p, st);
}
Verdict check_plan(const Plan& p, Stats& st) {
    if (g_run_jmp_set) return check_plan_inner(p, st);   // nested (shrinking inside a check): the outer guard stays
    Verdict v;
    g_run_jmp_set = true;
    if (sigsetjmp(g_run_jmp, 1) == 0) {
        v = check_plan_inner(p, st);
    } else if (g_run_abandoned) {
        g_run_abandoned = false;
        st.probe("run_abandoned_simulator_arena_exhausted");
        g.cur = &g.main_ctx; g.main_ctx.in_call = false; g.main_ctx.jmp_set = false; g.yield_hook = nullptr; g.conc = false;
    } else {
        // objects of the aborted check are leaked on purpose; the world is reset by the next run
        v.violated = true; v.kind = V_CRASH; v.op = g.violations.empty() ? -1 : g.violations.back().op;
        v.detail = g.violations.empty() ? "fault in the caller" : g.violations.back().detail;
        v.op_kind = (v.op >= 0 && v.op < (int)p.ops.size()) ? opkind_name(p.ops[(size_t)v.op].kind) : "-";
        v.concrete = p; v.ev_hash = g.ev_hash;
        g.cur = &g.main_ctx; g.main_ctx.in_call = false; g.main_ctx.jmp_set = false; g.yield_hook = nullptr; g.conc = false;
    }
    g_run_jmp_set = false;
    return v;
}

// ---------------------------------------------------------------- generators per property
static void add_query_ops(Rng& r, std::vector<Op>& ops, int nmgrs, bool with_compose_cap_all) {
    Op mk; mk.kind = OP_MKLIST; mk.a = 0; gen::query_items(r, mk, 4, 12); ops.push_back(mk);
    if (with_compose_cap_all) { Op c; c.kind = OP_COMPOSE; c.a = 0; c.entry = r.range(0, 1); c.opt = r.range(0, 3); c.cap = CAP_ALL; ops.push_back(c); }
    Op cm; cm.kind = OP_COMPOSE_MALLOC; cm.a = 0; cm.entry = r.range(0, 2); cm.opt = r.range(0, 3); cm.mgr = r.range(0, nmgrs - 1); ops.push_back(cm);
    Op d; d.kind = OP_DISSECT; d.a = 1; d.entry = r.range(0, 2); d.opt = r.range(0, 7) | (r.chance(120) ? 8 : 0); d.mgr = r.range(0, nmgrs - 1);
    if (r.chance(500)) d.b = 0; else d.text = gen::query_string(r, 4);
    ops.push_back(d);
    if (r.chance(400)) { Op f; f.kind = OP_FREEQL; f.a = r.range(0, 1); ops.push_back(f); }
}

static std::string near_duplicate(Rng& r, const std::string& t) {
    std::string s = t;
    int how = r.range(0, 8);
    size_t colon = s.find(':');
    switch (how) {
    case 0: return s;
    case 1: if (colon != std::string::npos && colon + 1 < s.size() && s[colon + 1] == '/') s.erase(colon + 1, 1); else if (colon != std::string::npos) s.insert(colon + 1, "/"); return s;
    case 2: return s + "?";
    case 3: return s + "#";
    case 4: if (!s.empty()) { size_t i = r.below((uint32_t)s.size()); if (s[i] >= 'a' && s[i] <= 'z') s[i] = (char)(s[i] - 32); else if (s[i] >= 'A' && s[i] <= 'Z') s[i] = (char)(s[i] + 32); } return s;
    case 5: if (!s.empty() && s[0] == '/') s.erase(0, 1); else s = "/" + s; return s;
    case 6: { size_t q = s.find('?'); if (q != std::string::npos) s.erase(q); return s; }
    case 7: { size_t p = s.find("//"); if (p != std::string::npos) { size_t e = s.find_first_of("/?#", p + 2); s.insert(e == std::string::npos ? s.size() : e, ":"); } return s; }
    default: return s + "/";
    }
}

Plan generate_plan(const std::string& prop, unsigned long long vseed, unsigned long long index, Tier tier) {
    Plan p = gen::base_plan(prop.c_str(), vseed, index);
    Rng r(p.run_seed);
    bool thorough = tier == TIER_THOROUGH;
    gen::HistCfg hc;
    hc.text.max_len = thorough ? 64 : 48;
    hc.text.max_segs = thorough && r.chance(300) ? 7 : 5;
    hc.text.mutate_per1024 = r.pick(std::vector<int>{0, 60, 120, 250});
    if (r.chance(thorough ? 20 : 8)) { hc.text.long_mode = true; hc.text.max_len = 6000; }   // a few long inputs (parser recursion depth, int lengths)
    hc.max_ops = thorough ? 12 : 9;
    // swarm: the operation mix differs from run to run
    switch (r.range(0, 5)) {
    case 0: hc.w_normalize = 40; hc.w_addbase = 8; hc.w_removebase = 6; break;                      // normalization-heavy
    case 1: hc.w_addbase = 40; hc.w_removebase = 8; hc.w_normalize = 10; break;                     // resolution-heavy
    case 2: hc.w_removebase = 36; hc.w_addbase = 14; hc.w_normalize = 10; break;                    // reference-creation-heavy
    case 3: hc.w_makeowner = 26; hc.w_normalize = 24; hc.w_parse = 20; break;                       // ownership-heavy
    case 4: hc.w_parse = 14; hc.w_addbase = 26; hc.w_removebase = 20; hc.w_normalize = 26; hc.w_makeowner = 10; break;   // long chains, few fresh parses
    default: break;                                                                                  // balanced
    }
    if (prop == "C14") {
        int k = r.range(0, 9);
        p.mgrs = {k < 4 ? MK_SIM : k < 7 ? MK_COMPLETED : MK_LIBC}; p.mgr_mask = {0};
        hc.nmgrs = 1; hc.w_tostring = 3; hc.w_free = 6;
        p.ops = gen::history(r, hc);
        if (r.chance(250)) add_query_ops(r, p.ops, 1, false);
        std::vector<int> elig;
        for (int i = 0; i < (int)p.ops.size(); i++) if (p.ops[(size_t)i].kind == OP_PARSE || p.ops[(size_t)i].kind == OP_ADDBASE || p.ops[(size_t)i].kind == OP_REMOVEBASE || p.ops[(size_t)i].kind == OP_NORMALIZE || p.ops[(size_t)i].kind == OP_MAKEOWNER || p.ops[(size_t)i].kind == OP_DISSECT || p.ops[(size_t)i].kind == OP_COMPOSE_MALLOC) elig.push_back(i);
        // prefer non-parse targets (chains) two times out of three
        std::vector<int> nonparse; for (int i : elig) if (p.ops[(size_t)i].kind != OP_PARSE) nonparse.push_back(i);
        int t = (!nonparse.empty() && r.chance(680)) ? r.pick(nonparse) : r.pick(elig);
        p.ops[(size_t)t].fail_k = K_ALL; p.target = t;
        p.extra = J::obj(); p.extra.set("subset_trials", thorough ? 4 : 1);
        if (thorough && r.chance(500)) p.extra.set("all_targets", 1);
    } else if (prop == "C13") {
        int n = r.range(1, 3);
        p.mgrs.clear(); p.mgr_mask.clear();
        for (int i = 0; i < n; i++) { int k = r.range(0, 9); p.mgrs.push_back(k < 4 ? MK_SIM : k < 7 ? MK_COMPLETED : MK_LIBC); p.mgr_mask.push_back(0); }
        bool inc = r.chance(180);
        if (inc) { p.mgrs.push_back(MK_INCOMPLETE); p.mgr_mask.push_back(r.range(0, 30)); }
        hc.nmgrs = (int)p.mgrs.size(); hc.w_free = 12; hc.w_tostring = 2;
        p.ops = gen::history(r, hc);
        if (r.chance(350)) add_query_ops(r, p.ops, hc.nmgrs, false);
        if (inc) {   // aim a few in-place ops at the incomplete manager too
            int im = (int)p.mgrs.size() - 1;
            for (auto& o : p.ops) if ((o.kind == OP_NORMALIZE || o.kind == OP_MAKEOWNER || o.kind == OP_FREE || o.kind == OP_FREEQL) && r.chance(300)) o.mgr = im;
        }
        if (r.chance(60)) { Op st; st.kind = OP_A_SELFTEST; st.mgr = r.range(0, hc.nmgrs - 1); p.ops.insert(p.ops.begin() + r.range(0, (int)p.ops.size()), st); }   // uriTestMemoryManager takes a manager too
        if (r.chance(120)) {   // a manager table that was accepted before loses a member in place for one call: it must be rejected now
            std::vector<int> elig;
            for (int i = 1; i < (int)p.ops.size(); i++) { int k = p.ops[(size_t)i].kind; if (k == OP_PARSE || k == OP_ADDBASE || k == OP_REMOVEBASE || k == OP_NORMALIZE || k == OP_MAKEOWNER || k == OP_DISSECT || k == OP_COMPOSE_MALLOC) elig.push_back(i); }
            if (!elig.empty()) p.ops[(size_t)r.pick(elig)].brk = r.range(1, 31);
        }
        if (r.chance(300)) {   // one run in three also sweeps the allocation failures of one call (ledger oracles only)
            std::vector<int> elig;
            for (int i = 0; i < (int)p.ops.size(); i++) { int k = p.ops[(size_t)i].kind; if (k == OP_PARSE || k == OP_ADDBASE || k == OP_REMOVEBASE || k == OP_NORMALIZE || k == OP_MAKEOWNER || k == OP_DISSECT || k == OP_COMPOSE_MALLOC) elig.push_back(i); }
            if (!elig.empty()) { int t = r.pick(elig); p.ops[(size_t)t].fail_k = K_ALL; p.target = t; }
        }
    } else if (prop == "C03") {
        gen::TextCfg tc = hc.text; tc.mutate_per1024 = r.pick(std::vector<int>{0, 200, 400, 700}); if (!tc.long_mode) tc.max_len = thorough ? 64 : 40;
        Op o; o.kind = OP_PARSE; o.a = 0;
        if (r.chance(200)) {   // IP-literal soup
            static const std::vector<std::string> parts = {":", "::", "1", "ffff", "0", ".", "1.2.3.4", "255", "256", "v1.", "a", "]", "[", "%", "12345", "44.1", "::44.1", "1:2:3:4:5:6:7:8", "00", ".",
                "ABCDE", "fffff", "FFFF", "AbCd", "1234", "0255", "1.2.3.1234", "F", "aBcDe1", "9", "1:2:3:4:5:6:", "1:2:3:4:5:6:7:", "::1:2:3:4:5:6:7", "1.2.3.4.5", "1..2", "v", "V7.", "vG.x", "1234.1.1.1", "25.25.25.255"};
            std::string t = r.chance(500) ? "//[" : "s://u@[";
            int n = r.range(1, 7); for (int i = 0; i < n; i++) t += r.pick(parts);
            if (r.chance(800)) t += "]";
            if (r.chance(300)) t += ":80/x";
            o.text = t;
        } else if (r.chance(50)) {   // dotted-decimal soup (also fed to the public IPv4 routine at every split point)
            static const std::vector<std::string> parts = {"0", "1", "9", "10", "25", "99", "100", "199", "200", "249", "250", "255", "256", "260", "300", "999", "00", "01", "1000", ".", ".", ".", "..", "a", ":", "/"};
            std::string t; int n = r.range(1, 9); for (int i = 0; i < n; i++) t += r.pick(parts);
            o.text = t;
        } else o.text = gen::uri_text(r, tc);
        p.ops.push_back(o);
        p.extra = J::obj(); p.extra.set("mode", "enumerate");
    } else if (prop == "C05") {
        hc.w_free = 1; hc.max_ops = thorough ? 10 : 7;
        p.ops = gen::history(r, hc);
        std::vector<int> slots;
        for (auto& o : p.ops) if ((o.kind == OP_PARSE || o.kind == OP_ADDBASE || o.kind == OP_REMOVEBASE) && std::find(slots.begin(), slots.end(), o.a) == slots.end()) slots.push_back(o.a);
        int n = std::min((int)slots.size(), r.range(1, 3));
        for (int i = 0; i < n; i++) { Op t; t.kind = OP_TOSTRING; t.a = slots[(size_t)((int)slots.size() - 1 - i)]; t.cap = CAP_ALL; p.ops.push_back(t); }
        // written, changed in place, written again: what an earlier measuring or writing call saw must not matter afterwards
        if (n && r.chance(300)) {
            Op c; c.a = slots.back(); if (r.chance(700)) { c.kind = OP_NORMALIZE; c.entry = r.range(0, 2); c.opt = r.chance(600) ? 63 : r.range(1, 63); } else { c.kind = OP_MAKEOWNER; c.entry = r.range(0, 1); }
            p.ops.push_back(c);
            Op t; t.kind = OP_TOSTRING; t.a = c.a; t.cap = CAP_ALL; p.ops.push_back(t);
        }
    } else if (prop == "C07") {
        hc.w_free = 2; hc.min_ops = 3; hc.max_ops = thorough ? 14 : 10; hc.w_normalize = 22; hc.refree = false;
        if (hc.text.mutate_per1024 > 120) hc.text.mutate_per1024 = 60;
        p.ops = gen::history(r, hc);
    } else if (prop == "C11") {
        hc.w_free = 2; hc.min_ops = 2; hc.max_ops = thorough ? 8 : 6; hc.refree = false;
        if (hc.text.mutate_per1024 > 120) hc.text.mutate_per1024 = 60;
        p.ops = gen::history(r, hc);
        // near duplicates of earlier texts into free slots
        std::vector<std::string> seen;
        for (auto& o : p.ops) if (o.kind == OP_PARSE) seen.push_back(o.text);
        int extra = r.range(0, 2), slot = 8;
        for (int i = 0; i < extra && !seen.empty(); i++) { Op o; o.kind = OP_PARSE; o.a = slot++; o.text = near_duplicate(r, r.pick(seen)); o.entry = 3; p.ops.push_back(o); if (r.chance(300)) { Op n; n.kind = OP_NORMALIZE; n.a = o.a; n.entry = 1; n.opt = r.range(1, 63); p.ops.push_back(n); } }
        // component-wise twins: the same reference with exactly one component changed (or none)
        {
            gen::TextCfg tc = hc.text;
            gen::UriParts base = gen::random_parts(r, tc);
            Op o; o.kind = OP_PARSE; o.a = slot++; o.text = base.render(); o.entry = r.range(0, 5); p.ops.push_back(o);
            int twins = r.range(1, 3);
            for (int i = 0; i < twins && slot < 15; i++) {
                std::string what; gen::UriParts t = gen::edit_one(r, r.chance(700) ? base : gen::edit_one(r, base, &what), &what);
                Op q; q.kind = OP_PARSE; q.a = slot++; q.text = t.render(); q.entry = r.range(0, 5); p.ops.push_back(q);
                if (r.chance(250)) { Op n; n.kind = r.chance(500) ? OP_MAKEOWNER : OP_NORMALIZE; n.a = q.a; n.entry = 1; n.opt = r.range(1, 63); p.ops.push_back(n); }
            }
        }
        // an in-place operation that fails for lack of memory and whose object the caller goes on using: such survivors are URIs
        // "produced by a sequence of library operations" too
        if (r.chance(250)) {
            std::vector<int> cand; for (int i = 0; i < (int)p.ops.size(); i++) if (p.ops[(size_t)i].kind == OP_NORMALIZE || p.ops[(size_t)i].kind == OP_MAKEOWNER) cand.push_back(i);
            if (cand.empty()) { std::vector<int> ps; for (auto& o : p.ops) if (o.kind == OP_PARSE) ps.push_back(o.a); if (!ps.empty()) { Op n; n.kind = r.chance(500) ? OP_MAKEOWNER : OP_NORMALIZE; n.a = r.pick(ps); n.entry = 1; n.opt = r.range(1, 63); p.ops.push_back(n); cand.push_back((int)p.ops.size() - 1); } }
            if (!cand.empty()) { Op& o = p.ops[(size_t)r.pick(cand)]; o.fail_k = r.range(1, 9); o.fail_mode = r.range(0, 1); o.keep = 1; }
        }
        // the same buffer parsed as a shorter range (same first pointer, different afterLast)
        if (r.chance(400) && slot < 15) {
            std::vector<int> parses; for (int i = 0; i < (int)p.ops.size(); i++) if (p.ops[(size_t)i].kind == OP_PARSE && p.ops[(size_t)i].text.size() > 1) parses.push_back(i);
            if (!parses.empty()) {
                int src = r.pick(parses);
                if (p.ops[(size_t)src].entry == 1 || p.ops[(size_t)src].entry == 2 || p.ops[(size_t)src].entry == 4) p.ops[(size_t)src].entry = 3;
                Op o; o.kind = OP_PARSE; o.a = slot++; o.c = src; o.entry = r.chance(500) ? 3 : 0; o.text = p.ops[(size_t)src].text;
                o.window = r.range(1, (int)o.text.size() - (r.chance(300) ? 0 : 1));
                if (r.chance(350)) { o.placement = 4; o.trail = r.range(1, std::max(1, o.window - 1)); o.entry = 3; }   // a later start inside the same buffer
                p.ops.push_back(o);
            }
        }
    } else if (prop == "C12") {
        hc.w_free = 2; hc.min_ops = 2; hc.max_ops = thorough ? 7 : 5; hc.w_makeowner = 4;
        if (hc.text.mutate_per1024 > 120) hc.text.mutate_per1024 = 60;
        p.ops = gen::history(r, hc);
        // choose an object to become owner: prefer results of resolve/relativize (borrow from several sources)
        std::vector<int> cand, cand2;
        for (auto& o : p.ops) { if (o.kind == OP_ADDBASE || o.kind == OP_REMOVEBASE) cand.push_back(o.a); if (o.kind == OP_PARSE) cand2.push_back(o.a); }
        int x = (!cand.empty() && r.chance(700)) ? r.pick(cand) : (!cand2.empty() ? r.pick(cand2) : 0);
        Op own; own.a = x;
        if (r.chance(450)) { own.kind = OP_MAKEOWNER; own.entry = r.range(0, 1); } else { own.kind = OP_NORMALIZE; own.entry = r.range(1, 2); own.opt = r.range(1, 63); }
        p.ops.push_back(own); p.target = (int)p.ops.size() - 1;
        int more = r.range(1, 5);
        for (int i = 0; i < more; i++) {
            Op o; int k = r.range(0, 6);
            int other = r.range(0, 5);
            if (k == 0) { o.kind = OP_TOSTRING; o.a = x; }
            else if (k == 1) { o.kind = OP_EQUALS; o.a = x; o.b = other; }
            else if (k == 2) { o.kind = OP_ADDBASE; o.a = 9 + i; o.b = other; o.c = x; o.entry = r.range(0, 2); }
            else if (k == 3) { o.kind = OP_ADDBASE; o.a = 9 + i; o.b = x; o.c = other; o.entry = r.range(0, 2); }
            else if (k == 4) { o.kind = OP_NORMALIZE; o.a = x; o.entry = r.range(0, 2); o.opt = r.range(1, 63); }
            else if (k == 5) { o.kind = OP_MASKREQ; o.a = x; o.entry = r.range(0, 1); }
            else { o.kind = OP_REMOVEBASE; o.a = 9 + i; o.b = x; o.c = other; o.opt = r.range(0, 1); }
            p.ops.push_back(o);
        }
        // "no operation ever writes into caller-supplied input text": the string and query operations run under the same monitor
        // (placed in front of the history so that they do not multiply the loss positions)
        std::vector<Op> hist; hist.swap(p.ops);
        if (r.chance(250)) add_query_ops(r, p.ops, 1, r.chance(500));
        if (r.chance(250)) {
            Op o; Op tmp; gen::query_items(r, tmp, 1, 12);
            if (r.chance(600)) { o.kind = OP_ESCAPE; o.text = tmp.keys[0] + (r.chance(300) ? "%41%0d%0A+%zz%" : ""); o.entry = r.range(0, 3); o.opt = r.range(0, 63) & ~3; }
            else { o.kind = OP_FILENAME; o.opt = r.range(0, 1); o.text = r.pick(std::vector<std::string>{"/bin/bash", "./configure", "C:\\Documents and Settings\\x", "\\\\Server01\\Letter.txt", "abc def", "E:/x y/%41", ""}) + tmp.keys[0]; }
            p.ops.push_back(o);
        }
        p.target += (int)p.ops.size();
        p.ops.insert(p.ops.end(), hist.begin(), hist.end());
        p.extra = J::obj(); p.extra.set("enumerate_loss", 1);
        if (r.chance(300)) {   // also sweep the allocation failures of one call that takes read-only arguments (or any allocating call)
            std::vector<int> elig, pref;
            for (int i = 0; i < (int)p.ops.size(); i++) { int k = p.ops[(size_t)i].kind; if (k == OP_ADDBASE || k == OP_REMOVEBASE) pref.push_back(i); if (k == OP_PARSE || k == OP_ADDBASE || k == OP_REMOVEBASE || k == OP_NORMALIZE || k == OP_MAKEOWNER) elig.push_back(i); }
            if (!pref.empty() && r.chance(800)) p.ops[(size_t)r.pick(pref)].fail_k = K_ALL; else if (!elig.empty()) p.ops[(size_t)r.pick(elig)].fail_k = K_ALL;
        }
    } else if (prop == "C17") {
        p.mgrs = {MK_LIBC, MK_SIM, MK_COMPLETED}; p.mgr_mask = {0, 0, 0};
        int giant_cases = 12;
        if (index < (unsigned long long)giant_cases) {
            p.extra = J::obj(); p.extra.set("mode", "giant"); p.extra.set("case", (long long)index);
            return p;
        }
        int flavour = r.range(0, 9);
        int maxlen = thorough ? 20 : 12;
        if (flavour < 7) {
            Op mk; mk.kind = OP_MKLIST; mk.a = 0; gen::query_items(r, mk, thorough ? 6 : 4, maxlen); p.ops.push_back(mk);
            Op c; c.kind = OP_COMPOSE; c.a = 0; c.entry = r.range(0, 1); c.opt = r.range(0, 3); c.cap = CAP_ALL; p.ops.push_back(c);
            int eff = c.entry == 0 ? 3 : c.opt;
            Op d; d.kind = OP_DISSECT; d.a = 1; d.b = 0; d.entry = r.range(1, 2); d.mgr = r.range(0, 2);
            d.opt = ((eff & 1) ? 1 : r.range(0, 1)) | (r.range(0, 3) << 1);
            if ((eff & 1) && r.chance(200)) { d.entry = 0; }
            d.placement = r.range(0, 1); d.trail = r.range(0, 16);
            p.ops.push_back(d);
            Op cm; cm.kind = OP_COMPOSE_MALLOC; cm.a = 0; cm.entry = r.range(0, 2); cm.opt = r.range(0, 3); cm.mgr = r.range(0, 2); p.ops.push_back(cm);
            int eff2 = cm.entry == 0 ? 3 : cm.opt;
            Op d2; d2.kind = OP_DISSECT; d2.a = 2; d2.b = 0; d2.entry = r.range(1, 2); d2.mgr = r.range(0, 2); d2.opt = ((eff2 & 1) ? 1 : r.range(0, 1)) | (r.range(0, 3) << 1); p.ops.push_back(d2);
            if (r.chance(500)) {   // second generation: compose what was dissected
                Op c3; c3.kind = OP_COMPOSE; c3.a = 1; c3.entry = 1; c3.opt = r.range(0, 3); c3.cap = r.chance(500) ? CAP_ALL : CAP_AMPLE; p.ops.push_back(c3);
                Op d3; d3.kind = OP_DISSECT; d3.a = 3; d3.b = 1; d3.entry = 1; d3.opt = ((c3.opt & 1) ? 1 : r.range(0, 1)) | (r.range(0, 3) << 1); p.ops.push_back(d3);
            }
        } else if (flavour < 9) {
            Op d; d.kind = OP_DISSECT; d.a = 1; d.text = gen::query_string(r, 5); d.entry = r.range(0, 2); d.opt = r.range(0, 7); d.mgr = r.range(0, 2); d.placement = r.range(0, 1); d.trail = r.range(0, 16); p.ops.push_back(d);
            Op c; c.kind = OP_COMPOSE; c.a = 1; c.entry = r.range(0, 1); c.opt = r.range(0, 3); c.cap = CAP_ALL; p.ops.push_back(c);
            int eff = c.entry == 0 ? 3 : c.opt;
            Op d2; d2.kind = OP_DISSECT; d2.a = 2; d2.b = 1; d2.entry = 1; d2.opt = ((eff & 1) ? 1 : r.range(0, 1)) | (r.range(0, 3) << 1); p.ops.push_back(d2);
        } else {
            p.extra = J::obj(); p.extra.set("mode", "fault");
            Op mk; mk.kind = OP_MKLIST; mk.a = 0; gen::query_items(r, mk, 4, maxlen); p.ops.push_back(mk);
            Op cm; cm.kind = OP_COMPOSE_MALLOC; cm.a = 0; cm.entry = r.range(0, 2); cm.opt = r.range(0, 3); cm.mgr = r.range(0, 2); p.ops.push_back(cm);
            Op d; d.kind = OP_DISSECT; d.a = 1; d.entry = r.range(0, 2); d.opt = r.range(0, 7); d.mgr = r.range(0, 2);
            if (r.chance(500)) d.b = 0; else d.text = gen::query_string(r, 4);
            p.ops.push_back(d);
            int t = r.chance(700) ? 2 : 1;
            p.ops[(size_t)t].fail_k = K_ALL; p.target = t;
        }
    } else if (prop == "C20") {
        { int k = r.range(0, 9); p.mgrs = {k < 6 ? MK_LIBC : k < 8 ? MK_SIM : MK_COMPLETED}; p.mgr_mask = {0}; }
        gen::TextCfg tc = hc.text; tc.mutate_per1024 = 30; tc.max_len = 40;
        std::string base = gen::abs_uri_text(r, tc);
        Op b0; b0.kind = OP_PARSE; b0.a = 0; b0.text = base; b0.entry = 3; p.ops.push_back(b0);
        Op b1; b1.kind = OP_PARSE; b1.a = 1; b1.text = r.chance(600) ? gen::related_text(r, base, tc) : gen::abs_uri_text(r, tc); b1.entry = 3; p.ops.push_back(b1);
        if (r.chance(400)) { Op o; o.kind = r.chance(500) ? OP_MAKEOWNER : OP_NORMALIZE; o.a = r.range(0, 1); o.opt = 63; o.entry = 1; p.ops.push_back(o); }
        Op mk; mk.kind = OP_MKLIST; mk.a = 0; gen::query_items(r, mk, 3, 8); p.ops.push_back(mk);
        int ntasks = thorough ? r.range(2, 6) : r.range(2, 4);
        std::vector<std::vector<Op>> tops((size_t)ntasks + 1);
        for (int t = 1; t <= ntasks; t++) {
            int s0 = 2 * t, s1 = 2 * t + 1, q = t;
            int nops = r.range(1, thorough ? 6 : 4);
            bool have0 = false;
            for (int i = 0; i < nops; i++) {
                Op o; o.task = t;
                int k = r.range(0, 14);
                if (k == 14) {   // allocator probe through the manager table (interesting with a completed manager: overflow and header paths)
                    static const std::vector<unsigned long long> big = {0, 1, 24, ~0ull, ~0ull - 3, (~0ull >> 1) + 2, 1ull << 33, 3};
                    o.kind = r.pick(std::vector<int>{OP_A_MALLOC, OP_A_CALLOC, OP_A_REALLOCARRAY}); o.n1 = r.pick(big); o.n2 = r.chance(500) ? 2 : r.pick(big);
                    tops[(size_t)t].push_back(o); continue;
                }
                if (k == 12) {   // a private list composed into a malloc'ed string (released by the harness at the end)
                    Op mkl; mkl.task = t; mkl.kind = OP_MKLIST; mkl.a = q; gen::query_items(r, mkl, 3, 8); tops[(size_t)t].push_back(mkl);
                    o.kind = OP_COMPOSE_MALLOC; o.a = q; o.entry = r.range(0, 2); o.opt = r.range(0, 3);
                    tops[(size_t)t].push_back(o); continue;
                }
                if (k == 13) { if (!have0) continue; o.kind = OP_FREE; o.a = s0; o.entry = r.range(0, 1); o.refree = r.range(0, 2); have0 = false; tops[(size_t)t].push_back(o); continue; }
                if (k <= 1 || (!have0 && k >= 6 && k <= 8)) { o.kind = OP_PARSE; o.a = s0; o.text = r.chance(500) ? gen::related_text(r, base, tc) : gen::uri_text(r, tc); o.entry = r.range(0, 5); o.placement = r.range(0, 1); have0 = true; }
                else if (k <= 3) { o.kind = OP_ADDBASE; o.a = s1; o.b = have0 && r.chance(500) ? s0 : 1; o.c = 0; o.opt = r.range(0, 1); o.entry = r.range(0, 2); }
                else if (k == 4) { o.kind = OP_REMOVEBASE; o.a = s1; o.b = r.chance(500) ? 1 : 0; o.c = r.chance(500) ? 0 : 1; o.opt = r.range(0, 1); o.entry = r.range(0, 1); }
                else if (k == 5) { o.kind = OP_TOSTRING; o.a = r.range(0, 1); o.cap = r.chance(300) ? 5 : CAP_AMPLE; }
                else if (k == 6) { o.kind = OP_NORMALIZE; o.a = s0; o.opt = r.range(1, 63); o.entry = r.range(0, 2); }
                else if (k == 7) { o.kind = OP_MAKEOWNER; o.a = s0; o.entry = r.range(0, 1); }
                else if (k == 8) { o.kind = OP_EQUALS; o.a = r.range(0, 1); o.b = r.chance(500) ? s0 : r.range(0, 1); }
                else if (k == 9) { o.kind = OP_MASKREQ; o.a = r.range(0, 1); o.entry = r.range(0, 1); }
                else if (k == 10) { o.kind = OP_COMPOSE; o.a = 0; o.entry = r.range(0, 1); o.opt = r.range(0, 3); o.cap = r.chance(300) ? 3 : CAP_AMPLE; }
                else if (r.chance(400)) { o.kind = OP_DISSECT; o.a = q; o.text = gen::query_string(r, 3); o.entry = r.range(0, 2); o.opt = r.range(0, 7); }
                else if (r.chance(500)) { o.kind = OP_ESCAPE; Op tmp; gen::query_items(r, tmp, 1, 10); o.text = tmp.keys[0] + (r.chance(300) ? "%41%0d%0A+" : ""); o.entry = r.range(0, 3); o.opt = r.range(0, 63); if ((o.opt & 3) == 3) o.text = r.pick(std::vector<std::string>{"1.2.3.4", "255.255.255.255", "256.1.1.1", "01.2.3.4", "1.2.3", "10.0.0.12", "1.2.3.4.5", "a.b.c.d", ""}); }
                else { o.kind = OP_FILENAME; o.opt = r.range(0, 1); o.text = r.pick(std::vector<std::string>{"/bin/bash", "./configure", "C:\\Documents and Settings\\x", "\\\\Server01\\Letter.txt", "abc def", "E:/x y/%41", "/a/b c/\xe9", ""}) + (r.chance(300) ? gen::uri_text(r, tc) : ""); }
                tops[(size_t)t].push_back(o);
            }
        }
        // one world in three: a thread runs out of memory in the middle of a call while the others carry on with the shared inputs
        if (r.chance(340)) {
            int nf = r.range(1, 3);
            for (int f = 0; f < nf; f++) {
                int t = r.range(1, ntasks);
                std::vector<int> cand;
                for (int i = 0; i < (int)tops[(size_t)t].size(); i++) { int k = tops[(size_t)t][(size_t)i].kind; if (k == OP_PARSE || k == OP_ADDBASE || k == OP_REMOVEBASE || k == OP_NORMALIZE || k == OP_MAKEOWNER || k == OP_DISSECT || k == OP_COMPOSE_MALLOC) cand.push_back(i); }
                if (cand.empty()) continue;
                Op& o = tops[(size_t)t][(size_t)r.pick(cand)];
                o.fail_k = r.range(1, 6); o.fail_mode = r.range(0, 1);
            }
        }
        // interleave task op lists in plan order (order inside a task is what matters)
        bool more = true; size_t pos = 0;
        while (more) { more = false; for (int t = 1; t <= ntasks; t++) if (pos < tops[(size_t)t].size()) { p.ops.push_back(tops[(size_t)t][pos]); more = true; } pos++; }
        p.sched_policy = r.range(1, 3); p.sched_seed = r.next();
        p.sched_param = p.sched_policy == 2 ? r.range(1, 3) : p.sched_policy == 3 ? r.pick(std::vector<int>{2, 8, 30, 100}) : 0;
    } else if (prop == "C15") {
        p.mgrs = {MK_COMPLETED}; p.mgr_mask = {0};
        if (r.chance(400)) { p.mgrs.push_back(MK_COMPLETED); p.mgr_mask.push_back(0); }   // two completed managers over different backends, alive together
        static const std::vector<unsigned long long> sizes = {0, 1, 2, 7, 8, 9, 15, 16, 17, 63, 64, 100, 4096, 4097, 9000, 70000, ~0ull, ~0ull - 7, ~0ull - 8, ~0ull - 9, (~0ull >> 1) + 1, (~0ull >> 1), 1ull << 32, (1ull << 32) + 1, 3, 5,
            0xAAAAAAAAAAAAAAABull, 0xAAAAAAAAAAAAAAAAull, 0xAAAAAAAAAAAAAAB0ull, 0x5555555555555556ull, 0xCCCCCCCCCCCCCCCDull, 0x8000000000000010ull, 0xFFFFFFFFFFFFF000ull, ~0ull / 3 + 1};   // sizes at which size + size/2, 2*size, 3*size, size + 4096 wrap
        int n = r.range(1, thorough ? 40 : 24);
        bool faults = r.chance(500);
        for (int i = 0; i < n; i++) {
            Op o; int k = r.range(0, 11);
            o.a = r.range(0, 7); o.b = r.range(0, 7);
            auto sz = [&]() -> unsigned long long { return r.chance(120) ? 0ull : r.chance(700) ? (unsigned long long)r.range(0, 200) : r.pick(sizes); };
            if (k <= 2) { o.kind = OP_A_MALLOC; o.n1 = sz(); if (r.chance(6)) { o.n1 = r.pick(std::vector<unsigned long long>{(1ull << 32) + 4096, (1ull << 32) + 17, (1ull << 32), 5ull << 30}); o.opt = 1; } }
            else if (k <= 4) { o.kind = OP_A_CALLOC; o.n1 = sz(); o.n2 = sz(); if (r.chance(100)) { o.n1 = 1ull << 33; o.n2 = 1ull << 31; } }
            else if (k <= 7) { o.kind = OP_A_REALLOC; o.n1 = sz(); if (r.chance(150)) o.a = -1; }
            else if (k <= 9) { o.kind = OP_A_REALLOCARRAY; o.n1 = sz(); o.n2 = sz(); if (r.chance(150)) o.a = -1; if (r.chance(100)) { o.n1 = (1ull << 32) + 3; o.n2 = 1ull << 32; } }
            else if (k == 10) { o.kind = OP_A_FREE; if (r.chance(100)) o.a = -1; }
            else { o.kind = r.chance(150) ? OP_A_SELFTEST : OP_A_FREE; }
            if (faults && r.chance(200)) { o.fail_k = r.range(1, 3); o.fail_mode = r.range(0, 1); }
            p.ops.push_back(o);
        }
    }
    return p;
}

// ---------------------------------------------------------------- shrinking
static bool same_class(const Plan& cand, const std::string& prop, const std::string& klass, Verdict* out, int* reruns) {
    Stats tmp;
    (*reruns)++;
    Verdict v = check_plan(cand, tmp);
    if (v.violated && v.klass(prop) == klass) { if (out) *out = v; return true; }
    return false;
}

// after erasing op `erased`: parse ops that share the buffer of another op refer to it by op index
static void fix_op_refs(Plan& p, int erased) {
    for (auto& o : p.ops) if (o.kind == OP_PARSE && o.c >= 0) { if (o.c == erased) o.c = -1; else if (o.c > erased) o.c--; }
}

Plan shrink_plan(const Plan& start, const Verdict& v0, int* reruns) {
    const std::string prop = start.property;
    const std::string klass = v0.klass(prop);
    Plan best = v0.concrete;
    const int budget = 600;
    *reruns = 0;
    Verdict cur = v0;
    auto try_plan = [&](Plan& cand) -> bool {
        if (*reruns >= budget) return false;
        Verdict nv;
        if (same_class(cand, prop, klass, &nv, reruns)) { best = nv.concrete; cur = nv; return true; }
        return false;
    };
    // 1. drop ops
    for (int pass = 0; pass < 3; pass++) {
        bool changed = false;
        for (int i = (int)best.ops.size() - 1; i >= 0 && *reruns < budget; i--) {
            if (best.ops.size() <= 1) break;
            Plan cand = best;
            cand.ops.erase(cand.ops.begin() + i);
            if (cand.target == i) continue;
            if (cand.target > i) cand.target--;
            fix_op_refs(cand, i);
            if (try_plan(cand)) { changed = true; if (i > (int)best.ops.size()) i = (int)best.ops.size(); }
        }
        if (!changed) break;
    }
    // 2. simplify each op
    for (int i = 0; i < (int)best.ops.size() && *reruns < budget; i++) {
        auto field = [&](std::function<bool(Op&)> edit) { if (i >= (int)best.ops.size()) return; Plan cand = best; if (edit(cand.ops[(size_t)i])) try_plan(cand); };
        // text: chunks then single characters
        for (size_t chunk = std::max<size_t>(1, best.ops[(size_t)i].text.size() / 2); chunk >= 1 && *reruns < budget; chunk /= 2) {
            for (size_t pos = 0; pos < best.ops[(size_t)i].text.size() && *reruns < budget;) {
                Plan cand = best; std::string& t = cand.ops[(size_t)i].text;
                if (pos + chunk > t.size()) break;
                t.erase(pos, chunk);
                if (cand.ops[(size_t)i].window > (int)t.size()) cand.ops[(size_t)i].window = (int)t.size();
                if (!try_plan(cand)) pos += chunk;
            }
            if (chunk == 1) break;
        }
        // list items
        for (int k = (int)best.ops[(size_t)i].keys.size() - 1; k >= 0 && *reruns < budget; k--) {
            if (best.ops[(size_t)i].keys.size() <= 1) break;
            Plan cand = best; Op& o = cand.ops[(size_t)i];
            o.keys.erase(o.keys.begin() + k); o.values.erase(o.values.begin() + k); o.has_value.erase(o.has_value.begin() + k);
            try_plan(cand);
        }
        for (size_t k = 0; k < best.ops[(size_t)i].keys.size() && *reruns < budget; k++) {
            for (int which = 0; which < 2; which++) {
                for (size_t pos = 0; *reruns < budget;) {
                    Plan cand = best; std::string& t = which ? cand.ops[(size_t)i].values[k] : cand.ops[(size_t)i].keys[k];
                    if (pos >= t.size()) break;
                    t.erase(pos, 1);
                    if (!try_plan(cand)) pos++;
                }
            }
        }
        field([](Op& o) { if (!o.refree) return false; o.refree = 0; return true; });
        field([](Op& o) { if (!o.placement) return false; o.placement = 0; o.trail = 0; return true; });
        field([](Op& o) { if (!o.mgr) return false; o.mgr = 0; return true; });
        field([](Op& o) { if (o.fail_mode != 1) return false; o.fail_mode = 0; return true; });
        field([](Op& o) { if (o.fail_mode != 2) return false; o.fail_mode = 0; o.fail_set = 0; return true; });
        if (i < (int)best.ops.size() && best.ops[(size_t)i].fail_k > 1) for (int k = 1; k < best.ops[(size_t)i].fail_k && *reruns < budget; k++) { Plan cand = best; cand.ops[(size_t)i].fail_k = k; if (try_plan(cand)) break; }
        field([](Op& o) { if (o.kind != OP_NORMALIZE || o.opt == 63 || o.opt == 0) return false; int m = o.opt; for (int b = 0; b < 6; b++) if (m & (1 << b)) { o.opt = 1 << b; return o.opt != m; } return false; });
        field([](Op& o) { if (!o.n1 || o.n1 < 2) return false; o.n1 = 1; return true; });
        field([](Op& o) { if (!o.n2 || o.n2 < 2) return false; o.n2 = 1; return true; });
    }
    // 3. plan level
    { Plan cand = best; if (cand.reuse != REUSE_NEVER) { cand.reuse = REUSE_NEVER; try_plan(cand); } }
    { Plan cand = best; if (cand.chr) { cand.chr = 0; try_plan(cand); } }
    { Plan cand = best; if (cand.locale) { cand.locale = 0; try_plan(cand); } }
    { Plan cand = best; bool any = false; for (auto& m : cand.mgrs) if (m != MK_LIBC && m != MK_INCOMPLETE) { m = MK_SIM; } for (size_t i = 0; i < cand.mgrs.size(); i++) if (cand.mgrs[i] != best.mgrs[i]) any = true; if (any) try_plan(cand); }
    // schedule: drop preemptions
    for (int i = (int)best.sched_trace.size() - 2; i >= 2 && *reruns < budget; i -= 2) {
        Plan cand = best;
        cand.sched_trace.erase(cand.sched_trace.begin() + i, cand.sched_trace.begin() + i + 2);
        try_plan(cand);
        if (i > (int)best.sched_trace.size()) i = (int)best.sched_trace.size();
    }
    // one more op-drop pass after simplification
    for (int i = (int)best.ops.size() - 1; i >= 0 && *reruns < budget; i--) {
        if (best.ops.size() <= 1) break;
        Plan cand = best;
        if (cand.target == i) continue;
        cand.ops.erase(cand.ops.begin() + i);
        if (cand.target > i) cand.target--;
        fix_op_refs(cand, i);
        try_plan(cand);
        if (i > (int)best.ops.size()) i = (int)best.ops.size();
    }
    return best;
}

}  // namespace sim
