// C17, INT_MAX clause: lists whose worst-case sizes approach / exceed INT_MAX, individually and in total, without the memory:
// a 4 MiB memfd full of 'a' is mapped back to back many times, followed by one zero page, which gives a readable
// NUL-terminated string of any length up to ~750 M characters for 4 MiB of physical memory.
#include "exec.h"
#include "engine.h"
#include <sys/mman.h>
#include <unistd.h>
#include <limits.h>

namespace sim {

namespace {
template <class C> struct Giant {
    static char* region; static size_t chars;   // chars available before the terminator
    static C* zero;
    static bool init(size_t want_chars) {
        if (region) return chars >= want_chars;
        const size_t file_bytes = 4u << 20;
        int fd = memfd_create("urisim-giant", 0);
        if (fd < 0) return false;
        if (ftruncate(fd, (off_t)file_bytes) != 0) { close(fd); return false; }
        C* w = (C*)mmap(nullptr, file_bytes, PROT_READ | PROT_WRITE, MAP_SHARED, fd, 0);
        if (w == MAP_FAILED) { close(fd); return false; }
        for (size_t i = 0; i < file_bytes / sizeof(C); i++) w[i] = (C)'a';
        munmap(w, file_bytes);
        size_t copies = (want_chars * sizeof(C) + file_bytes - 1) / file_bytes;
        size_t total = copies * file_bytes + 4096;
        char* base = (char*)mmap(nullptr, total, PROT_NONE, MAP_PRIVATE | MAP_ANONYMOUS | MAP_NORESERVE, -1, 0);
        if (base == MAP_FAILED) { close(fd); return false; }
        for (size_t k = 0; k < copies; k++)
            if (mmap(base + k * file_bytes, file_bytes, PROT_READ, MAP_SHARED | MAP_FIXED, fd, 0) == MAP_FAILED) { close(fd); return false; }
        if (mmap(base + copies * file_bytes, 4096, PROT_READ, MAP_PRIVATE | MAP_ANONYMOUS | MAP_FIXED, -1, 0) == MAP_FAILED) { close(fd); return false; }
        close(fd);
        region = base; chars = copies * file_bytes / sizeof(C); zero = (C*)(base + copies * file_bytes);
        return true;
    }
    static const C* str(size_t len) { return zero - len; }
};
template <class C> char* Giant<C>::region = nullptr;
template <class C> size_t Giant<C>::chars = 0;
template <class C> C* Giant<C>::zero = nullptr;

struct Case { unsigned long long klen[2]; long long vlen[2]; int items; int nb; int sp; int how; const char* name; int must_succeed; };   // must_succeed: the worst case is below INT_MAX, a refusal is wrong
// how: 0 chars-required, 1 compose-malloc, 2 compose into a small buffer
static const Case kCases[] = {
    {{(unsigned long long)INT_MAX / 6, 0}, {-1, -1}, 1, 1, 1, 0, "one key exactly at the per-item guard (INT_MAX/6)"},
    {{(unsigned long long)INT_MAX / 6 - 1, 0}, {-1, -1}, 1, 1, 1, 0, "one key just below the per-item guard"},
    {{300000000ull, 0}, {300000000ll, -1}, 1, 1, 1, 0, "key and value each below the guard, sum above INT_MAX"},
    {{300000000ull, 300000000ull}, {-1, -1}, 2, 1, 0, 0, "two items whose keys are each below the guard, total above INT_MAX"},
    {{357913941ull, 0}, {357913941ll, -1}, 1, 0, 1, 1, "total exactly INT_MAX with factor 3: compose-malloc must refuse"},
    {{(unsigned long long)INT_MAX / 6 - 1, 0}, {-1, -1}, 1, 1, 1, 1, "compose-malloc of a list that needs 2^31-8 characters"},
    {{300000000ull, 0}, {300000000ll, -1}, 1, 1, 1, 2, "compose of an overflowing list into a 64-character buffer"},
    {{200000000ull, 200000000ull}, {100000000ll, 220000000ll}, 2, 0, 1, 0, "two items with factor 3, total just above INT_MAX"},
    {{8ull, 0}, {(long long)(INT_MAX / 6 - 1), -1}, 1, 1, 1, 2, "8-character key, then a value just below the guard, composed into a 64-character buffer (a writer-side bound computed in int would wrap)"},
    {{8ull, (unsigned long long)INT_MAX / 6 - 1}, {-1, -1}, 2, 1, 1, 2, "8-character first item, then a key just below the guard, composed into a 64-character buffer"},
    {{400000000ull, 0}, {-1, -1}, 1, 0, 1, 0, "one key of 400 M characters without break normalization: worst case 1.2 G < INT_MAX, must be measured, not refused", 1},
    {{(unsigned long long)INT_MAX / 6 + 5, 0}, {-1, -1}, 1, 0, 0, 0, "one key just above INT_MAX/6 without break normalization (factor 3): fits", 1},
};

template <class C> Verdict giant_case(const Plan& plan, Stats& st, int ci) {
    typedef Api<C> A;
    Verdict none;
    const Case& cs = kCases[ci];
    run_reset(plan.junk, REUSE_NEVER, 32);
    size_t need = 0;
    for (int i = 0; i < cs.items; i++) { need = std::max<size_t>(need, (size_t)cs.klen[i]); if (cs.vlen[i] >= 0) need = std::max<size_t>(need, (size_t)cs.vlen[i]); }
    if (!Giant<C>::init(405000000)) { st.probe("giant_mapping_unavailable"); return none; }
    if (need > Giant<C>::chars) { st.probe("giant_case_skipped_too_long"); return none; }
    g.giant_lo = (uintptr_t)Giant<C>::region; g.giant_hi = (uintptr_t)(Giant<C>::zero + 1);
    g.step_budget = 30000000ull + 200ull * (unsigned long long)need * (unsigned long long)cs.items;   // room for several linear passes over the input
    std::vector<MgrInst> mgrs = build_managers({MK_SIM}, {0});
    typename A::QL* nodes = (typename A::QL*)arena_alloc(A_OBJ, sizeof(typename A::QL) * 2, 16, perm(P_R, RS_CONST_ARG));
    double true_len = 0;
    for (int i = 0; i < cs.items; i++) {
        nodes[i].key = Giant<C>::str((size_t)cs.klen[i]);
        nodes[i].value = cs.vlen[i] >= 0 ? Giant<C>::str((size_t)cs.vlen[i]) : nullptr;
        nodes[i].next = i + 1 < cs.items ? &nodes[i + 1] : nullptr;
        true_len += (double)cs.klen[i] + (cs.vlen[i] >= 0 ? 1.0 + (double)cs.vlen[i] : 0.0) + (i ? 1.0 : 0.0);
    }
    UriBool sp = cs.sp ? URI_TRUE : URI_FALSE, nb = cs.nb ? URI_TRUE : URI_FALSE;
    int* req = (int*)arena_alloc(A_OBJ, sizeof(int), 4, P_RW); *req = -1;
    volatile int rc = -999; bool ok;
    event("giant case %d: %s", ci, cs.name);
    call_begin(0, -1, -1, FaultPlan());
    LIBCALL_RUN({ rc = A::ComposeQueryCharsRequiredEx(nodes, req, sp, nb); }, ok);
    call_end();
    st.trials++; st.nontrivial++; st.signatures.insert(0x6147000 + (unsigned)ci * 2 + (sizeof(C) > 1));
    st.fault("int_max_size", 1);
    char buf[320];
    if (ok) {
        if (rc == URI_SUCCESS) {
            if (*req < 0 || (double)*req < true_len) {
                snprintf(buf, sizeof buf, "[wrapped-figure] %s: chars-required returned success and the figure %d although the text needs %.0f characters (worst case exceeds INT_MAX)", cs.name, *req, true_len);
                g.cur->op = 0; violate(V_INTMAX, buf, false);
            } else st.probe("giant_figure_accepted");
        } else if (cs.must_succeed) {
            snprintf(buf, sizeof buf, "[refused-although-it-fits] %s: chars-required returned %d although the worst case (%.0f x %d) is below INT_MAX", cs.name, (int)rc, true_len, cs.nb ? 6 : 3);
            g.cur->op = 0; violate(V_INTMAX, buf, false);
        } else st.probe("giant_refused");
    }
    if (ok && g.violations.empty() && cs.how == 1) {
        C** out = (C**)arena_alloc(A_OBJ, sizeof(C*), 8, P_RW); *out = nullptr;
        rc = -999;
        call_begin(1, TAG_STR, 1, FaultPlan());
        LIBCALL_RUN({ rc = A::ComposeQueryMallocExMm(out, nodes, sp, nb, mgrs[0].table); }, ok);
        call_end();
        st.trials++;
        if (ok && rc == URI_SUCCESS) { g.cur->op = 1; violate(V_INTMAX, std::string("[malloc-not-refused] ") + cs.name + ": compose-malloc reported success", false); }
        if (ok && heap_live_count()) { g.cur->op = 1; violate(V_LEAK_AFTER_FAILURE, "compose-malloc of a giant list failed and left a block allocated", false); }
    }
    if (ok && g.violations.empty() && cs.how == 2) {
        arena_alloc(A_OBJ, 32, sizeof(C), perm(0, RS_REDZONE));
        C* dest = (C*)arena_alloc(A_OBJ, 64 * sizeof(C), sizeof(C), P_RW);
        arena_alloc(A_OBJ, 64, 1, perm(0, RS_REDZONE));
        int* written = (int*)arena_alloc(A_OBJ, sizeof(int), 4, P_RW); *written = -7;
        rc = -999;
        call_begin(1, -1, -1, FaultPlan());
        LIBCALL_RUN({ rc = A::ComposeQueryEx(dest, nodes, 64, written, sp, nb); }, ok);
        call_end();
        st.trials++;
        if (ok && rc == URI_SUCCESS) { g.cur->op = 1; violate(V_INTMAX, std::string("[small-buffer-success] ") + cs.name + ": compose into 64 characters reported success", false); }
    }
    st.loads += g.loads; st.stores += g.stores; st.edges += g.edges; st.events += g.ev_count; st.evh = mix64(st.evh, g.ev_hash);
    g.giant_lo = g.giant_hi = 0;
    Violation v;
    // reuse the common known-findings / relevance filter
    for (auto& x : g.violations) {
        if (!kind_relevant("C17", x.kind)) { st.anomalies[vkind_name(x.kind)]++; continue; }
        std::string tok; if (x.detail.size() > 2 && x.detail[0] == '[') { size_t e = x.detail.find(']'); if (e != std::string::npos) tok = x.detail.substr(1, e - 1); }
        if (g_known.match("C17", x.kind, tok) >= 0) { st.known[std::string(vkind_name(x.kind)) + ":" + tok]++; if (!st.known_example.count(std::string(vkind_name(x.kind)) + ":" + tok)) st.known_example[std::string(vkind_name(x.kind)) + ":" + tok] = x.detail; continue; }
        Verdict d; d.violated = true; d.kind = x.kind; d.op = x.op; d.detail = x.detail; d.token = tok; d.op_kind = "giant"; d.concrete = plan; d.ev_hash = g.ev_hash;
        return d;
    }
    return none;
}
}  // namespace

Verdict check_giant(const Plan& plan, Stats& st) {
    st.runs++;
    int ci = (int)plan.extra.geti("case", 0);
    int ncases = (int)(sizeof kCases / sizeof kCases[0]);
    if (ci < 0 || ci >= ncases) return Verdict();
    // wide strings cost four times the address space and memory traffic: run the wide build on the cheaper cases only
    unsigned long long longest = 0;
    for (int i = 0; i < kCases[ci].items; i++) { longest = std::max(longest, kCases[ci].klen[i]); if (kCases[ci].vlen[i] > 0) longest = std::max(longest, (unsigned long long)kCases[ci].vlen[i]); }
    if (plan.chr && longest <= 300000000ull) return giant_case<wchar_t>(plan, st, ci);
    return giant_case<char>(plan, st, ci);
}

}  // namespace sim
