// Seeded workload generators (DESIGN.md section 4).
#pragma once
#include "plan.h"

namespace sim { namespace gen {

struct TextCfg { int max_segs = 5; int mutate_per1024 = 120; int max_len = 64; bool long_mode = false; };

std::string uri_text(Rng& r, const TextCfg& c);
std::string abs_uri_text(Rng& r, const TextCfg& c);              // has a scheme (unless mutated)
std::string related_text(Rng& r, const std::string& base, const TextCfg& c);   // shares prefix with base
std::string query_string(Rng& r, int max_items);
void query_items(Rng& r, Op& mk, int max_items, int max_len);

// component-wise description of a URI reference, for near-duplicates that differ in exactly one component
struct UriParts {
    bool has_scheme = false; std::string scheme;
    bool has_auth = false, has_user = false, has_port = false; std::string user, host, port;
    bool abs = false; std::vector<std::string> segs;
    bool has_query = false, has_frag = false; std::string query, frag;
    std::string render() const;
};
UriParts random_parts(Rng& r, const TextCfg& c);
UriParts edit_one(Rng& r, const UriParts& p, std::string* what);   // change exactly one component

struct HistCfg {
    int min_ops = 3, max_ops = 10;
    int nslots = 6;
    int nmgrs = 1;
    // weights
    int w_parse = 30, w_addbase = 18, w_removebase = 12, w_normalize = 16, w_makeowner = 8, w_free = 5, w_tostring = 0, w_equals = 0, w_maskreq = 0;
    bool entries = true;       // vary entry points
    bool refree = true;
    TextCfg text;
};
// URI history: ops over slots 0..nslots-1; starts with a few parses
std::vector<Op> history(Rng& r, const HistCfg& c);

// common plan header: run_seed, chr, heap personality
Plan base_plan(const char* prop, unsigned long long vseed, unsigned long long index);

}}  // namespace
