// urisim driver: check <prop> <tier> | replay <file> | gen <prop> <seed> <index> | hashes ...
#include "engine.h"
#include "rt.h"
#include <sys/mman.h>
#include <sys/wait.h>
#include <sys/stat.h>
#include <unistd.h>
#include <fcntl.h>
#include <time.h>
#include <fstream>
#include <sstream>
#include <algorithm>

using namespace sim;

static double now_s() { struct timespec ts; clock_gettime(CLOCK_MONOTONIC, &ts); return (double)ts.tv_sec + (double)ts.tv_nsec * 1e-9; }
static std::string read_file(const std::string& p) { std::ifstream f(p); std::stringstream ss; ss << f.rdbuf(); return ss.str(); }
static bool write_file(const std::string& p, const std::string& s) { std::ofstream f(p); if (!f) return false; f << s; return (bool)f; }

struct PropInfo { const char* id; const char* level; unsigned long long quick_runs, thorough_runs; const char* rule; const char* explanation; };
static const PropInfo kProps[] = {
    {"C03", "exploration", 100000, 1500000,
     "one case = one generated text (grammar-directed, seeded byte mutation); for it EVERY split point is parsed from a private exact copy and from 5-7 other placements/entry points (mid-buffer with adversarial continuation, NUL-terminated, state-based, custom manager) and compared; every allocation-failure position of the full parse is tried. evaluations = simulated parses; distinct_nontrivial = distinct texts for which at least one variant comparison ran",
     ""},
    {"C05", "fault_enumeration", 1000000, 12000000,
     "one case = one URI object built by a seeded history (parse/resolve/relativize/normalize/make-owner chains); fault = the caller's buffer ending at character k: EVERY capacity from -2 to required+3, with and without charsWritten. evaluations = uriToString calls; distinct_nontrivial = distinct recomposed texts whose capacities were enumerated",
     ""},
    {"C07", "exploration", 2000000, 20000000,
     "one case = one seeded history of 3..14 chained operations over a pool of URI objects; every object produced is checked at once (structure, recompose, re-parse, component comparison). distinct_nontrivial = distinct (op-kind sequence, object digests) among histories in which at least one checked object came from a chain of >= 2 operations",
     ""},
    {"C11", "exploration", 800000, 10000000,
     "one case = one seeded history plus near-duplicate parses; at its end every ordered pair of live objects, every object against NULL and against the re-parse of its own text is compared. distinct_nontrivial = distinct pools (op-kind sequence + object digests) with more than one pair compared",
     ""},
    {"C12", "exploration", 450000, 6000000,
     "one case = one seeded history ending in an ownership operation (make-owner or normalize with mask != 0) followed by further operations; fault = source_loss (every text buffer the owner ever borrowed from is overwritten and made unreadable) enumerated at EVERY later position of the history, each compared with the loss-free run. distinct_nontrivial = distinct (history, digests) in which the loss actually fired",
     ""},
    {"C13", "exploration", 1500000, 20000000,
     "one case = one fault-free seeded history over 1..3 managers (null/libc via interposed allocator, 5-function custom, completed-from-malloc/free, incomplete with any of 31 masks). distinct_nontrivial = distinct (op sequence, manager kinds, outcomes) with at least one allocation and two executed operations",
     ""},
    {"C14", "fault_enumeration", 600000, 2400000,
     "one case = one seeded history with a target operation; the target's allocation request count N is measured fault-free, then EVERY k in 1..N is failed in fail-once and fail-from-k modes (plus seeded subsets), each on a freshly re-executed history. evaluations = simulated runs (trials); distinct_nontrivial = distinct (history, target result, k, mode) in which the injected failure actually fired",
     ""},
    {"C15", "exploration", 80000, 2400000,
     "one case = one seeded history of 1..40 allocator calls (malloc/calloc/realloc/reallocarray/free/self-test) with sizes including 0 and values near SIZE_MAX over <= 8 live handles on a manager completed from a malloc/free-only simulated backend, half of the histories with backend failures; checked call by call against a reference model and the backend ledger. distinct_nontrivial = distinct (call-kind, size-class, liveness) sequences of length >= 2",
     ""},
    {"C17", "exploration", 1000000, 12000000,
     "one case = one seeded key/value list (code points 1..255, biased to & = + % space CR LF) composed at EVERY capacity from -1 to required+2, dissected with matching options on one of three managers and compared with the model; or a raw query string dissected, composed and dissected again; or an allocation-failure sweep of dissect/compose-malloc; plus 12 fixed INT_MAX cases on a mirror-mapped 405M-character string. distinct_nontrivial = distinct (op sequence, composed texts) with a round-trip comparison",
     ""},
    {"C20", "exploration", 1000000, 12000000,
     "one case = one world (two shared read-only URIs, a shared query list, 2..6 tasks each running 1..6 public calls on private outputs) executed once sequentially and once under a seeded schedule (round-robin at allocator calls / 1-3 random change points / random walk) with switches only inside library calls. distinct_nontrivial = distinct complete control-transfer sequences with more than one preemption",
     ""},
};
static const PropInfo* prop_info(const std::string& id) { for (auto& p : kProps) if (id == p.id) return &p; return nullptr; }

struct WorkerViolation { std::string klass, detail, replay, brief; unsigned long long index = 0; int reruns = 0; bool gate_ok = true; std::string gate_note; };

static std::string g_replay_dir = "/verif/replays";

static std::string sanitize(const std::string& s) { std::string o; for (char c : s) o += (isalnum((unsigned char)c) || c == '-' || c == '_') ? c : '_'; return o; }

// gate + shrink + write replay file
static WorkerViolation process_violation(const Plan& plan, const Verdict& v0) {
    WorkerViolation w;
    const std::string prop = plan.property;
    w.klass = v0.klass(prop); w.detail = v0.detail; w.index = plan.run_index;
    // gate 1: same process, same plan -> same class and same event hash
    Stats tmp;
    Verdict v1 = check_plan(v0.concrete, tmp);
    bool whole_plan = false;
    if (!v1.violated || v1.klass(prop) != w.klass) {
        // The concrete plan is the generated one narrowed to the failing trial (one capacity, one k, one loss position). If the library
        // keeps hidden state between calls, the trials that were cut away matter: fall back to the generated plan as a whole, which
        // is just as deterministic, and do not shrink it.
        Stats tg; Verdict vg = check_plan(plan, tg);
        if (vg.violated && vg.klass(prop) == w.klass) { v1 = vg; v1.concrete = plan; whole_plan = true; }
        else { w.gate_ok = false; w.gate_note = "re-execution of the concrete plan did not reproduce the violation class (got " + (v1.violated ? v1.klass(prop) : std::string("none")) + ")"; }
    }
    Stats tmp2;
    Verdict v2 = check_plan(whole_plan ? plan : v0.concrete, tmp2);
    if (w.gate_ok && (v2.ev_hash != v1.ev_hash || !v2.violated)) { w.gate_ok = false; w.gate_note = "event hash differs between two executions of the same plan"; }
    Plan minimal = whole_plan ? plan : v0.concrete;
    if (w.gate_ok && whole_plan) { w.detail = v1.detail + "  (not minimised: the violation depends on the calls of the other trials of this run - hidden state between calls)"; }
    if (w.gate_ok && !whole_plan) {
        minimal = shrink_plan(plan, v1, &w.reruns);
        Stats t3; Verdict v3 = check_plan(minimal, t3);
        if (!v3.violated || v3.klass(prop) != w.klass) { minimal = v1.concrete; }
        else { w.detail = v3.detail; minimal = v3.concrete; }
    }
    char name[256];
    snprintf(name, sizeof name, "%s/%s-%s-%016llx.json", g_replay_dir.c_str(), prop.c_str(), sanitize(w.klass.substr(prop.size() + 1)).c_str(), plan.run_seed);
    J j = minimal.to_json();
    j.set("violation_class", w.klass); j.set("violation_detail", w.detail);
    j.set("original_ops", (long long)plan.ops.size()); j.set("shrink_reruns", w.reruns);
    mkdir(g_replay_dir.c_str(), 0755);
    write_file(name, j.str(1) + "\n");
    w.replay = name; w.brief = minimal.brief();
    return w;
}

static J wv_json(const WorkerViolation& w) {
    J j = J::obj(); j.set("klass", w.klass); j.set("detail", w.detail); j.set("replay", w.replay); j.set("brief", w.brief);
    j.set("index", w.index); j.set("reruns", w.reruns); j.set("gate_ok", w.gate_ok); j.set("gate_note", w.gate_note); return j;
}
static WorkerViolation wv_from(const J& j) {
    WorkerViolation w; w.klass = j.gets("klass"); w.detail = j.gets("detail"); w.replay = j.gets("replay"); w.brief = j.gets("brief");
    w.index = (unsigned long long)j.geti("index"); w.reruns = (int)j.geti("reruns"); w.gate_ok = j.geti("gate_ok") != 0; w.gate_note = j.gets("gate_note"); return w;
}

struct Shared { volatile unsigned long long cur_index[64]; volatile unsigned long long done[64]; volatile int stop; };

static void worker_main(int w, int W, const std::string& prop, Tier tier, unsigned long long vseed, unsigned long long from, unsigned long long total, double deadline,
                        Shared* sh, const std::string& outpath, bool dump_hashes) {
    arenas_init(); install_signal_handlers();
    Stats st; std::vector<WorkerViolation> viols; std::set<std::string> classes;
    J hashes = J::arr();
    bool truncated = false;
    unsigned long long i = from;
    for (; i < total; i += (unsigned long long)W) {
        if (sh->stop) break;
        if (now_s() > deadline) { truncated = true; break; }
        sh->cur_index[w] = i;
        Plan p = generate_plan(prop, vseed, i, tier);
        Stats one;
        Verdict v = check_plan(p, one);
        if (one.samples.empty() && st.samples.size() < 3 && i < 3 * (unsigned long long)W) {
            J s = J::obj(); s.set("run_index", i); s.set("run_seed", p.run_seed); s.set("chr", p.chr ? "W" : "A");
            J ops = J::arr(); for (auto& o : p.ops) ops.push(o.brief()); s.set("ops", ops);
            if (p.extra.t == J::OBJ) s.set("extra", p.extra);
            one.samples.push_back(s.str());
        }
        unsigned long long h = one.evh ^ (v.violated ? 0xbadull : 0);
        if (dump_hashes) { J e = J::arr(); e.push((long long)i); e.push((long long)h); hashes.push(e); }
        st.merge(one);
        if (v.violated) {
            std::string k = v.klass(prop);
            if (!classes.count(k) && viols.size() < 4) {
                classes.insert(k);
                viols.push_back(process_violation(p, v));
            } else st.probe("further_violations_of_reported_classes");
        }
        sh->done[w] = i + 1;
    }
    coverage_merge_into(st.cov);
    J out = J::obj();
    out.set("stats", st.to_json()); out.set("hashes", hashes); out.set("truncated", truncated); out.set("next", i);
    J vs = J::arr(); for (auto& x : viols) vs.push(wv_json(x)); out.set("violations", vs);
    write_file(outpath, out.str());
    _exit(0);
}

static int fresh_replay(const std::string& self, const std::string& file, const std::string& known, std::string* klass_out) {
    int pfd[2]; if (pipe(pfd)) return -1;
    pid_t pid = fork();
    if (pid == 0) {
        dup2(pfd[1], 1); close(pfd[0]); close(pfd[1]);
        int dn = open("/dev/null", 1); if (dn >= 0) dup2(dn, 2);
        execl(self.c_str(), self.c_str(), "replay", file.c_str(), "--known", known.c_str(), "--quiet", (char*)nullptr);
        _exit(127);
    }
    close(pfd[1]);
    std::string out; char buf[4096]; ssize_t n;
    while ((n = read(pfd[0], buf, sizeof buf)) > 0) out.append(buf, (size_t)n);
    close(pfd[0]);
    int stt = 0; waitpid(pid, &stt, 0);
    size_t p = out.find("CLASS ");
    if (p != std::string::npos && klass_out) { size_t e = out.find('\n', p); *klass_out = out.substr(p + 6, e == std::string::npos ? std::string::npos : e - p - 6); }
    return WIFEXITED(stt) ? WEXITSTATUS(stt) : -2;
}

static int cmd_replay(const std::string& file, bool quiet) {
    arenas_init(); install_signal_handlers();
    J j; Plan p;
    if (!J::parse(read_file(file), j) || !Plan::from_json(j, p)) { fprintf(stderr, "HARNESS-ERROR: cannot read plan %s\n", file.c_str()); return 2; }
    if (!quiet) { printf("replaying %s: property %s, chr %s, %zu ops\n%s", file.c_str(), p.property.c_str(), p.chr ? "W" : "A", p.ops.size(), p.brief().c_str()); g.trace = true; }
    Stats st;
    Verdict v = check_plan(p, st);
    g.trace = false;
    if (v.violated) {
        printf("CLASS %s\n", v.klass(p.property).c_str());
        printf("VIOLATION property=%s replay=%s\n", p.property.c_str(), file.c_str());
        printf("  at op %d (%s): %s: %s\n", v.op, v.op_kind.c_str(), vkind_name(v.kind), v.detail.c_str());
        printf("  event_hash=%016llx\n", v.ev_hash);
        return 1;
    }
    for (auto& kv : st.known) printf("KNOWN-FINDING: property=%s %s (%llu) e.g. %s\n", p.property.c_str(), kv.first.c_str(), kv.second, st.known_example[kv.first].c_str());
    printf("no violation (trials=%llu)\n", st.trials);
    return 0;
}

static std::string file_cov_note(const Stats& st) {
    unsigned long long hit = 0; for (auto b : st.cov) hit += b;
    char buf[96]; snprintf(buf, sizeof buf, "%llu of %zu sancov edge guards of the library", hit, st.cov.empty() ? 0 : st.cov.size() - 1);
    return buf;
}

static int cmd_check(const std::string& self, const std::string& prop, Tier tier, const std::string& known_path, const std::string& evidence_dir,
                     long long runs_override, int W, const std::string& dump_hashes, double cap_override) {
    const PropInfo* pi = prop_info(prop);
    if (!pi) { fprintf(stderr, "unknown or unclaimed property %s\n", prop.c_str()); return 2; }
    unsigned long long vseed = 1;
    if (const char* e = getenv("VERIF_SEED")) vseed = strtoull(e, nullptr, 10);
    unsigned long long total = tier == TIER_QUICK ? pi->quick_runs : pi->thorough_runs;
    if (runs_override > 0) total = (unsigned long long)runs_override;
    double cap = tier == TIER_QUICK ? 150.0 : 1500.0;
    if (cap_override > 0) cap = cap_override;
    double t0 = now_s(), deadline = t0 + cap;
    if (!g_known.load(known_path)) { fprintf(stderr, "HARNESS-ERROR: cannot read known findings file %s\n", known_path.c_str()); return 2; }
    printf("urisim check %s tier=%s VERIF_SEED=%llu runs=%llu workers=%d\n", prop.c_str(), tier == TIER_QUICK ? "quick" : "thorough", vseed, total, W);
    fflush(stdout);
    Shared* sh = (Shared*)mmap(nullptr, sizeof(Shared), PROT_READ | PROT_WRITE, MAP_SHARED | MAP_ANONYMOUS, -1, 0);
    memset((void*)sh, 0, sizeof *sh);
    std::string tmpbase = self.substr(0, self.rfind('/')) + "/tmp";   // next to the binary (build directory)
    char tmpdir[600]; snprintf(tmpdir, sizeof tmpdir, "%s/%d", tmpbase.c_str(), (int)getpid());
    mkdir(tmpbase.c_str(), 0755); mkdir(tmpdir, 0755);
    struct WInfo { pid_t pid; int w; std::string out; unsigned long long from; int gen; };
    std::vector<WInfo> ws;
    auto spawn = [&](int w, unsigned long long from, int gen) {
        WInfo wi; wi.w = w; wi.from = from; wi.gen = gen;
        wi.out = std::string(tmpdir) + "/w" + std::to_string(w) + "_" + std::to_string(gen) + ".json";
        fflush(stdout);
        pid_t pid = fork();
        if (pid == 0) worker_main(w, W, prop, tier, vseed, from, total, deadline, sh, wi.out, !dump_hashes.empty());
        wi.pid = pid; ws.push_back(wi);
    };
    for (int w = 0; w < W; w++) spawn(w, (unsigned long long)w, 0);
    Stats all; std::vector<WorkerViolation> viols; bool truncated = false; int harness_errors = 0;
    std::vector<std::pair<long long, long long>> hashes;
    size_t active = ws.size();
    while (active) {
        int stt = 0; pid_t pid = wait(&stt);
        if (pid < 0) break;
        size_t k = 0; for (; k < ws.size(); k++) if (ws[k].pid == pid) break;
        if (k == ws.size()) continue;
        active--;
        WInfo wi = ws[k];
        bool clean = WIFEXITED(stt) && WEXITSTATUS(stt) == 0;
        std::string text = read_file(wi.out);
        J j;
        if (clean && J::parse(text, j)) {
            if (const J* s = j.get("stats")) all.merge(Stats::from_json(*s));
            if (const J* v = j.get("violations")) for (auto& x : v->a) viols.push_back(wv_from(x));
            if (const J* h = j.get("hashes")) for (auto& e : h->a) hashes.emplace_back(e.a[0].i, e.a[1].i);
            if (j.geti("truncated")) truncated = true;
        } else {
            // the worker died inside run cur_index: that run is a crash of the system under test or of the harness
            unsigned long long idx = sh->cur_index[wi.w];
            Plan p = generate_plan(prop, vseed, idx, tier);
            char name[256]; snprintf(name, sizeof name, "%s/%s-workerdeath-%016llx.json", g_replay_dir.c_str(), prop.c_str(), p.run_seed);
            mkdir(g_replay_dir.c_str(), 0755);
            write_file(name, p.to_json().str(1) + "\n");
            std::string kl; int rc = fresh_replay(self, name, known_path, &kl);
            WorkerViolation w; w.index = idx; w.replay = name; w.brief = p.brief();
            if (rc == 1) { w.klass = kl; w.detail = "worker process died during this run; replay in a fresh process reports the violation"; viols.push_back(w); }
            else if (rc != 0) { w.klass = prop + ":crash:process-death"; w.detail = "worker process died during this run and dies again on replay (exit status " + std::to_string(rc) + ")"; viols.push_back(w); }
            else { fprintf(stderr, "HARNESS-ERROR: worker %d died at run %llu but the run replays cleanly\n", wi.w, idx); harness_errors++; }
            if (wi.gen < 20 && idx + (unsigned long long)W < total) { spawn(wi.w, idx + (unsigned long long)W, wi.gen + 1); active++; }
        }
    }
    double wall = now_s() - t0;
    // ---- report
    std::set<std::string> seen; int nviol = 0;
    for (auto& w : viols) {
        if (seen.count(w.klass)) continue;
        seen.insert(w.klass);
        if (!w.gate_ok) { printf("HARNESS-ERROR: violation %s at run %llu did not pass the determinism gate: %s\n", w.klass.c_str(), w.index, w.gate_note.c_str()); harness_errors++; continue; }
        std::string kl; int rc = fresh_replay(self, w.replay, known_path, &kl);
        if (rc != 1 || kl != w.klass) { printf("HARNESS-ERROR: replay file %s does not reproduce %s in a fresh process (exit %d, class '%s')\n", w.replay.c_str(), w.klass.c_str(), rc, kl.c_str()); harness_errors++; continue; }
        nviol++;
        printf("VIOLATION property=%s replay=%s\n", prop.c_str(), w.replay.c_str());
        printf("  class: %s   (run_index %llu, VERIF_SEED %llu, minimised with %d re-executions)\n", w.klass.c_str(), w.index, vseed, w.reruns);
        printf("  %s\n  minimised plan:\n%s", w.detail.c_str(), w.brief.c_str());
    }
    for (auto& e : g_known.entries) {
        if (e.property != prop || e.fixed) continue;
        std::string key = e.kind + (e.token.empty() ? "" : ":" + e.token);
        unsigned long long n = all.known.count(key) ? all.known[key] : 0;
        printf("KNOWN-FINDING: property=%s %s [%s] seen %llu time(s) in this run%s%s\n", prop.c_str(), e.what.c_str(), key.c_str(), n, n ? "; e.g. " : "", n ? all.known_example[key].c_str() : "");
    }
    for (auto& kv : all.anomalies) printf("NOTE out-of-scope anomaly (not judged by this property's check): %s x%llu e.g. %s\n", kv.first.c_str(), kv.second, all.anomaly_example[kv.first].c_str());
    if (truncated) printf("NOTE wall-clock cap of %.0f s reached: run count truncated\n", cap);
    // ---- evidence
    unsigned long long covhit = 0; for (auto b : all.cov) covhit += b;
    J ev = J::obj();
    ev.set("property_id", prop); ev.set("tier", tier == TIER_QUICK ? "quick" : "thorough"); ev.set("seed", (long long)vseed); ev.set("level", pi->level);
    J cov = J::obj();
    cov.set("evaluations", all.trials); cov.set("distinct_nontrivial", (unsigned long long)all.signatures.size());
    cov.set("rule", pi->rule);
    J samples = J::arr();
    for (auto& s : all.samples) { J sj; if (J::parse(s, sj)) samples.push(sj); else samples.push(s); }
    if (samples.a.empty()) samples.push("no sample recorded");
    cov.set("samples", samples); cov.set("exhaustive", false);
    cov.set("simulated_runs", all.runs); cov.set("nontrivial_trials", all.nontrivial); cov.set("operations_executed", all.ops);
    cov.set("runs_per_hour", wall > 0 ? (double)all.runs * 3600.0 / wall : 0.0);
    cov.set("seeds_per_hour", wall > 0 ? (double)all.runs * 3600.0 / wall : 0.0);
    cov.set("trials_per_hour", wall > 0 ? (double)all.trials * 3600.0 / wall : 0.0);
    cov.set("simulated_time", "none: the system has no clock, timer or I/O; logical steps are counted instead");
    J steps = J::obj(); steps.set("library_edges", all.edges); steps.set("library_loads_checked", all.loads); steps.set("library_stores_checked", all.stores); steps.set("events_logged", all.events);
    cov.set("logical_steps", steps);
    J fj = J::obj(); for (auto& kv : all.faults) fj.set(kv.first, kv.second); cov.set("faults_fired", fj);
    J pj = J::obj(); for (auto& kv : all.probes) pj.set(kv.first, kv.second); cov.set("probes", pj);
    cov.set("states_reached_measure", file_cov_note(all));
    cov.set("library_edge_guards_hit", covhit); cov.set("library_edge_guards_total", (unsigned long long)(all.cov.empty() ? 0 : all.cov.size() - 1));
    if (prop == "C20") { cov.set("distinct_schedules", (unsigned long long)all.schedules.size()); cov.set("distinct_switch_points", (unsigned long long)all.switch_points.size()); }
    J rs = J::obj();
    rs.set("real", "every line of uriparser (both character types), compiled from /repo's working tree with clang -O1 and sancov edge/load/store tracing");
    rs.set("stub", "the allocator behind UriMemoryManager and behind libc malloc/calloc/free as called by the library (simulated heap with ledger, junk fill, red zones, failure injection); the OS scheduler (cooperative tasks, seeded scheduler); the caller (generated plans); libc mem*/str* are the real routines behind range-checking wrappers");
    cov.set("real_vs_stub", rs);
    J kj = J::obj(); for (auto& kv : all.known) kj.set(kv.first, kv.second); cov.set("known_findings_seen", kj);
    J aj = J::obj(); for (auto& kv : all.anomalies) aj.set(kv.first, kv.second); cov.set("out_of_scope_anomalies", aj);
    cov.set("event_hash_xor", (long long)all.evh); cov.set("workers", W); cov.set("truncated_by_wall_clock_cap", truncated);
    ev.set("coverage", cov);
    J as = J::arr();
    as.push("the instrumented clang -O1 build of the working tree behaves like the shipped build at source level");
    as.push("the access monitor sees library code (aggregate copies included: memory intrinsics are lowered to monitored calls) and the wrapped libc routines, not the inside of other libc routines; indexing past the library's fixed-size arrays is reported by -fsanitize=bounds handlers, other overflow inside the library's own stack frames is not seen");
    as.push("sampling: only the inner dimensions named in 'rule' are enumerated exhaustively, per sampled case");
    ev.set("assumptions", as);
    ev.set("wall_s", wall); ev.set("violations", nviol);
    mkdir(evidence_dir.c_str(), 0755);
    write_file(evidence_dir + "/" + prop + ".json", ev.str(1) + "\n");
    if (const char* dc = getenv("URISIM_DUMP_COV")) {
        // guard index, hit flag, PC as offset into the executable image (for llvm-symbolizer); see tools/coverage_by_function.sh
        std::string out; uintptr_t base = 0;
        { FILE* m = fopen("/proc/self/maps", "r"); if (m) { unsigned long lo; if (fscanf(m, "%lx-", &lo) == 1) base = lo; fclose(m); } }
        size_t n = g_pcs_end > g_pcs_beg ? (size_t)(g_pcs_end - g_pcs_beg) / 2 : 0;
        for (size_t i = 0; i < n; i++) { char b[96]; snprintf(b, sizeof b, "%zu %d 0x%lx\n", i + 1, (int)(i + 1 < all.cov.size() && all.cov[i + 1]), (unsigned long)(g_pcs_beg[2 * i] - base)); out += b; }
        write_file(dc, out);
    }
    if (!dump_hashes.empty()) {
        std::sort(hashes.begin(), hashes.end());
        std::string s; for (auto& h : hashes) { char b[64]; snprintf(b, sizeof b, "%lld %016llx\n", h.first, (unsigned long long)h.second); s += b; }
        write_file(dump_hashes, s);
    }
    printf("%s %s: runs=%llu trials=%llu nontrivial=%llu distinct=%zu ops=%llu edges_hit=%llu/%zu wall=%.1fs violations=%d known=%zu\n", prop.c_str(), tier == TIER_QUICK ? "quick" : "thorough",
           all.runs, all.trials, all.nontrivial, all.signatures.size(), all.ops, covhit, all.cov.empty() ? 0 : all.cov.size() - 1, wall, nviol, all.known.size());
    std::string cmd = std::string("rm -rf ") + tmpdir; int rr = system(cmd.c_str()); (void)rr;
    if (harness_errors) return 2;
    return nviol ? 1 : 0;
}

int main(int argc, char** argv) {
    std::vector<std::string> a(argv + 1, argv + argc);
    std::string self = "/proc/self/exe";
    { char buf[512]; ssize_t n = readlink("/proc/self/exe", buf, sizeof buf - 1); if (n > 0) { buf[n] = 0; self = buf; } }
    std::string known = "/verif/known_findings.json", evidence = "/verif/evidence", dump;
    long long runs = 0; int W = 16; bool quiet = false; double cap = 0;
    std::vector<std::string> pos;
    for (size_t i = 0; i < a.size(); i++) {
        if (a[i] == "--known" && i + 1 < a.size()) known = a[++i];
        else if (a[i] == "--evidence" && i + 1 < a.size()) evidence = a[++i];
        else if (a[i] == "--runs" && i + 1 < a.size()) runs = atoll(a[++i].c_str());
        else if (a[i] == "--workers" && i + 1 < a.size()) W = atoi(a[++i].c_str());
        else if (a[i] == "--dump-hashes" && i + 1 < a.size()) dump = a[++i];
        else if (a[i] == "--replays" && i + 1 < a.size()) g_replay_dir = a[++i];
        else if (a[i] == "--cap" && i + 1 < a.size()) cap = atof(a[++i].c_str());
        else if (a[i] == "--quiet") quiet = true;
        else pos.push_back(a[i]);
    }
    if (W < 1) W = 1; if (W > 60) W = 60;
    if (pos.empty()) { fprintf(stderr, "usage: urisim check <prop> quick|thorough | replay <file> | gen <prop> <seed> <index> [tier]\n"); return 2; }
    if (pos[0] == "check" && pos.size() >= 2) {
        Tier t = TIER_QUICK;
        if (pos.size() >= 3) t = pos[2] == "thorough" ? TIER_THOROUGH : TIER_QUICK;
        else if (const char* e = getenv("VERIF_TIER")) t = std::string(e) == "thorough" ? TIER_THOROUGH : TIER_QUICK;
        return cmd_check(self, pos[1], t, known, evidence, runs, W, dump, cap);
    }
    if (pos[0] == "replay" && pos.size() >= 2) { g_known.load(known); return cmd_replay(pos[1], quiet); }
    if (pos[0] == "gen" && pos.size() >= 4) {
        Plan p = generate_plan(pos[1], strtoull(pos[2].c_str(), nullptr, 10), strtoull(pos[3].c_str(), nullptr, 10), pos.size() >= 5 && pos[4] == "thorough" ? TIER_THOROUGH : TIER_QUICK);
        printf("%s\n", p.to_json().str(1).c_str());
        return 0;
    }
    fprintf(stderr, "bad arguments\n");
    return 2;
}
